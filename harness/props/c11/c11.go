// Package c11 decides C11: no transaction taken from the mempool is lost on its way into the chain.
package c11

import (
	"bytes"
	"context"
	"fmt"
	"math/rand"
	"strings"
	"sync"
	"time"

	logging "github.com/ipfs/go-log/v2"

	"github.com/evstack/ev-node/block"
	coresequencer "github.com/evstack/ev-node/core/sequencer"
	"github.com/evstack/ev-node/sequencers/single"

	"verifharness/monitors"
	"verifharness/vk"
	"verifharness/world"
)

// Level is the verification level claimed for this property.
const Level = "fault_enumeration"

// seqProxy records what the real sequencer accepted and released.
type seqProxy struct {
	mu       sync.Mutex
	inner    coresequencer.Sequencer
	released []world.SeqResp // in release order
	accepted [][][]byte
	refused  int
	nextID   int
	// evidence: hand-offs by size (bigHandoff = the payload of one default DA blob, 64*64*482 bytes)
	big, bigRefused int
	maxBytes        int
}

const bigHandoff = 64 * 64 * 482

func (p *seqProxy) SubmitBatchTxs(ctx context.Context, req coresequencer.SubmitBatchTxsRequest) (*coresequencer.SubmitBatchTxsResponse, error) {
	res, err := p.inner.SubmitBatchTxs(ctx, req)
	size := 0
	if req.Batch != nil {
		for _, tx := range req.Batch.Transactions {
			size += len(tx)
		}
	}
	p.mu.Lock()
	if size > p.maxBytes {
		p.maxBytes = size
	}
	if size > bigHandoff {
		p.big++
		if err != nil {
			p.bigRefused++
		}
	}
	if err != nil {
		p.refused++
	} else if req.Batch != nil {
		p.accepted = append(p.accepted, req.Batch.Transactions)
	}
	p.mu.Unlock()
	return res, err
}

func (p *seqProxy) GetNextBatch(ctx context.Context, req coresequencer.GetNextBatchRequest) (*coresequencer.GetNextBatchResponse, error) {
	res, err := p.inner.GetNextBatch(ctx, req)
	if err == nil && res != nil && res.Batch != nil {
		p.mu.Lock()
		r := world.SeqResp{Kind: world.SeqEmpty, Time: res.Timestamp, ID: p.nextID}
		if len(res.Batch.Transactions) > 0 {
			r.Kind = world.SeqTxs
			for _, tx := range res.Batch.Transactions {
				r.Txs = append(r.Txs, append([]byte{}, tx...))
			}
		}
		p.nextID++
		p.released = append(p.released, r)
		p.mu.Unlock()
	}
	return res, err
}

func (p *seqProxy) VerifyBatch(ctx context.Context, req coresequencer.VerifyBatchRequest) (*coresequencer.VerifyBatchResponse, error) {
	return p.inner.VerifyBatch(ctx, req)
}

// Case is one operation script.
type Case struct {
	ID     int      `json:"id"`
	Queue  int      `json:"queue_bound"`
	Ops    []string `json:"ops"` // inj:<n>:<kind> | reap | prod | restart | crash-reap:<k> | crash-prod:<k>
	TxSeed int64    `json:"tx_seed"`
	// BigTxKB: size range (KB) of the transactions injected by kind "big" (large-hand-off scripts)
	BigTxKB [2]int `json:"big_tx_kb,omitempty"`
}

// txName abbreviates a transaction for messages and witnesses (large transactions are a short
// header followed by padding).
func txName(tx []byte) string {
	if len(tx) <= 80 {
		return string(tx)
	}
	head := tx[:32]
	if i := bytes.IndexByte(tx[:80], '|'); i >= 0 {
		head = tx[:i]
	}
	return fmt.Sprintf("%s|...(%d bytes)", head, len(tx))
}

func (c Case) key() string { return fmt.Sprintf("q%d %s", c.Queue, strings.Join(c.Ops, " ")) }

type sim struct {
	r           *vk.Run
	c           Case
	ctx         context.Context
	im          *world.Image
	exec        *world.ExecDouble
	proxy       *seqProxy
	keys        world.Keys
	n           *world.Node
	reaper      *block.Reaper
	da          *world.DADouble
	injected    map[string]int // tx bytes -> number of mempool entries ever injected
	txN         int
	crashes     int
	lostAllowed map[int]bool // release ids cut by a crash
	crashedStep []bool
}

func (s *sim) start(crashAfter int) error {
	dsp := world.NewMemDS(s.im)
	if crashAfter >= 0 {
		dsp.CrashAfter(crashAfter)
	}
	metrics, _ := single.NopMetrics()
	seq, err := single.NewSequencerWithQueueSize(s.ctx, logging.Logger("verif-seq"), dsp, s.da, []byte("verif-chain"), time.Second, metrics, true, s.c.Queue)
	if err != nil {
		return fmt.Errorf("sequencer: %w", err)
	}
	s.proxy.inner = seq
	n, err := world.NewNode(s.ctx, world.NodeOpts{Aggregator: true}, s.keys, dsp, s.exec, s.proxy, s.da, nil)
	if err != nil {
		return err
	}
	s.n = n
	s.reaper = block.NewReaper(s.ctx, s.exec, s.proxy, "verif-chain", time.Hour, logging.Logger("verif-reaper"), dsp)
	s.reaper.SetManager(n.M)
	return nil
}

func (s *sim) inject(rng *rand.Rand, n int, kind string) {
	for i := 0; i < n; i++ {
		var tx []byte
		switch kind {
		case "repeat":
			// bytes that were injected before (possibly already executed)
			if len(s.injected) > 0 {
				k := rng.Intn(len(s.injected))
				for b := range s.injected {
					if k == 0 {
						tx = []byte(b)
						break
					}
					k--
				}
			}
		case "dup":
			if i > 0 {
				tx = []byte(fmt.Sprintf("tx-%d-%d", s.c.ID, s.txN))
			}
		case "big":
			s.txN++
			lo, hi := s.c.BigTxKB[0], s.c.BigTxKB[1]
			size := (lo + rng.Intn(hi-lo+1)) * 1024
			tx = make([]byte, size)
			rng.Read(tx)
			copy(tx, fmt.Sprintf("tx-%d-%d|", s.c.ID, s.txN))
		}
		if tx == nil {
			s.txN++
			tx = []byte(fmt.Sprintf("tx-%d-%d", s.c.ID, s.txN))
		}
		s.injected[string(tx)]++
		s.exec.Inject(tx)
	}
}

func run(r *vk.Run, c Case) (reachedCrash []bool) {
	ctx := context.Background()
	rng := rand.New(rand.NewSource(c.TxSeed))
	s := &sim{r: r, c: c, ctx: ctx, im: world.NewImage(), exec: world.NewExecDouble(), proxy: &seqProxy{}, keys: world.NewKeys("proposer"),
		da: world.NewDADouble(), injected: map[string]int{}, lostAllowed: map[int]bool{}}
	wit := func() any {
		var rel []string
		for _, x := range s.proxy.released {
			var t []string
			for _, tx := range x.Txs {
				t = append(t, txName(tx))
			}
			rel = append(rel, fmt.Sprintf("#%d %v", x.ID, t))
		}
		return map[string]any{"case": c, "released_batches": rel}
	}
	if err := s.start(-1); err != nil {
		r.Violation("startup", err.Error(), wit())
		return nil
	}
	if c.ID%3 != 0 {
		_ = s.n.M.VerifPublishBlock(ctx) // the first block is produced before any transaction arrives
	} // else: transactions arrive and are reaped before the node produces its first block
	hadCrash := false
	takeBeforeSave := false // a crash fell between the durable removal of a batch from the queue and the first save of its block
	for _, op := range c.Ops {
		parts := strings.Split(op, ":")
		switch parts[0] {
		case "inj":
			var n int
			fmt.Sscanf(parts[1], "%d", &n)
			s.inject(rng, n, parts[2])
		case "reap":
			s.reaper.SubmitTxs()
		case "prod":
			_ = s.n.M.VerifPublishBlock(ctx)
		case "restart":
			if err := s.start(-1); err != nil {
				r.Violation("restart", "clean restart failed: "+err.Error(), wit())
				return reachedCrash
			}
		case "crash-reap", "crash-prod":
			var k int
			fmt.Sscanf(parts[1], "%d", &k)
			s.n.DS.CrashAfter(k)
			relBefore := len(s.proxy.released)
			cutWithBatch := false
			if parts[0] == "crash-reap" {
				s.reaper.SubmitTxs()
			} else {
				_ = s.n.M.VerifPublishBlock(ctx)
			}
			crashed := s.n.DS.Crashed()
			reachedCrash = append(reachedCrash, crashed)
			if crashed {
				hadCrash = true
				// what was released during the cut step may be lost - but only where the code cannot know better:
				for i := relBefore; i < len(s.proxy.released); i++ {
					s.lostAllowed[s.proxy.released[i].ID] = true
					if s.proxy.released[i].Kind == world.SeqTxs && parts[0] == "crash-prod" {
						cutWithBatch = true
					}
				}
			}
			if err := s.start(-1); err != nil {
				r.Violation("restart", "restart after crash failed: "+err.Error(), wit())
				return reachedCrash
			}
			r.Hit("restart-after-crash")
			if cutWithBatch {
				// the known loss: a non-empty batch was handed to the production step the crash cut, and the image the crash
				// left holds no block above the chain height - the block that was to carry the batch had not been saved yet
				// (decided from the store after the restart, not from how the node lays out its writes)
				tip, _ := s.n.Store.Height(ctx)
				if _, _, err := s.n.Store.GetBlockData(ctx, tip+1); err != nil {
					takeBeforeSave = true
				}
			}
		}
	}
	// quiescence: no new transactions; reap and produce until everything taken must have gone through
	rounds := len(s.proxy.accepted) + len(c.Ops) + 6
	for i := 0; i < rounds; i++ {
		s.reaper.SubmitTxs()
		_ = s.n.M.VerifPublishBlock(ctx)
	}
	// ---- the chain
	tip, _ := s.n.Store.Height(ctx)
	inChain := map[string]int{}
	var chainBatches [][][]byte
	bigBlocks := 0
	for h := uint64(1); h <= tip; h++ {
		_, d, err := s.n.Store.GetBlockData(ctx, h)
		if err != nil {
			r.Violation("chain", fmt.Sprintf("block %d unreadable: %v", h, err), wit())
			return reachedCrash
		}
		var txs [][]byte
		size := 0
		for _, tx := range d.Txs {
			inChain[string(tx)]++
			txs = append(txs, tx)
			size += len(tx)
		}
		if size > bigHandoff {
			bigBlocks++
		}
		if len(txs) > 0 {
			chainBatches = append(chainBatches, txs)
		}
	}
	var viol []string
	// no loss: every distinct tx ever taken from the mempool is in the chain
	var lost []string
	for _, tx := range s.exec.Taken() {
		r.Hit("no-loss")
		if inChain[string(tx)] == 0 {
			lost = append(lost, txName(tx))
		}
	}
	// order: the non-empty blocks are the released non-empty batches, in release order (a batch released at a step cut by a crash may be missing)
	rel := s.proxy.released
	var nonEmpty []world.SeqResp
	for _, x := range rel {
		if x.Kind == world.SeqTxs {
			nonEmpty = append(nonEmpty, x)
		}
	}
	// the chain's non-empty blocks must be obtainable from the release sequence by dropping only batches
	// released at a step cut by a crash (equal batches make the assignment ambiguous: search all)
	memo := map[[2]int]bool{}
	var match func(ci, ri int) bool
	match = func(ci, ri int) bool {
		if ri == len(nonEmpty) {
			return ci == len(chainBatches)
		}
		k := [2]int{ci, ri}
		if v, ok := memo[k]; ok {
			return v
		}
		ok := false
		if ci < len(chainBatches) && monitors.EqualTxs(nonEmpty[ri].Txs, chainBatches[ci]) {
			ok = match(ci+1, ri+1)
		}
		if !ok && s.lostAllowed[nonEmpty[ri].ID] {
			ok = match(ci, ri+1)
		}
		memo[k] = ok
		return ok
	}
	r.HitN("release-order", int64(len(chainBatches)))
	orderOK := match(0, 0)
	if !orderOK {
		// tell apart "a batch is missing" (judged by the no-loss clause below) from "wrong order / foreign block"
		relaxed := map[[2]int]bool{}
		var sub func(ci, ri int) bool
		sub = func(ci, ri int) bool {
			if ci == len(chainBatches) {
				return true
			}
			if ri == len(nonEmpty) {
				return false
			}
			k := [2]int{ci, ri}
			if v, ok := relaxed[k]; ok {
				return v
			}
			ok := (monitors.EqualTxs(nonEmpty[ri].Txs, chainBatches[ci]) && sub(ci+1, ri+1)) || sub(ci, ri+1)
			relaxed[k] = ok
			return ok
		}
		if !sub(0, 0) {
			viol = append(viol, "the non-empty blocks of the chain are not the released batches in release order")
		} else {
			viol = append(viol, "a released batch is missing from the chain although no crash cut the step that took it")
		}
	}
	if !hadCrash {
		dups := 0
		for tx, n := range inChain {
			r.Hit("no-duplicate")
			if n > s.injected[tx] {
				if dups++; dups > 4 {
					continue
				}
				viol = append(viol, fmt.Sprintf("transaction %q is in the chain %d times but was offered by the mempool %d time(s), and nothing crashed", txName([]byte(tx)), n, s.injected[tx]))
			}
		}
	}
	if len(lost) > 0 {
		detail := fmt.Sprintf("transactions taken from the mempool never reached the chain after quiescence: %v", lost)
		// predicted shape of C11-take-before-save: exactly the txs of batches released at a crashed step are missing
		shapeOK := takeBeforeSave && len(viol) == 0
		if shapeOK {
			allowed := map[string]bool{}
			for _, x := range rel {
				if s.lostAllowed[x.ID] {
					for _, tx := range x.Txs {
						allowed[txName(tx)] = true
					}
				}
			}
			for _, tx := range lost {
				if !allowed[tx] {
					shapeOK = false
				}
			}
		}
		if shapeOK {
			r.Finding("C11-take-before-save", "no-loss", detail+" (the process died after the batch was durably removed from the sequencer queue and before the block holding it was first saved)", wit())
		} else {
			viol = append(viol, detail)
		}
	}
	if len(viol) > 0 {
		r.Violation("mempool-to-chain", strings.Join(viol, " ;; "), wit())
	}
	r.Count("txs_taken", int64(len(s.exec.Taken())))
	r.Count("handoffs_refused", int64(s.proxy.refused))
	if c.BigTxKB[1] > 0 {
		r.Hit("large-handoff-script")
		r.Count("large_scripts_handoffs_above_one_da_blob", int64(s.proxy.big))
		r.Count("large_scripts_handoffs_above_one_da_blob_refused", int64(s.proxy.bigRefused))
		if s.proxy.bigRefused > 0 {
			r.Count("large_scripts_with_a_refused_handoff_above_one_da_blob", 1)
		}
		r.Count("large_scripts_blocks_above_one_da_blob", int64(bigBlocks))
	}
	nontrivial := false
	for _, b := range reachedCrash {
		nontrivial = nontrivial || b
	}
	r.Eval(c.key(), nontrivial || s.proxy.refused > 0, c)
	return reachedCrash
}

func genBase(rng *rand.Rand, id int) Case {
	c := Case{ID: id, Queue: []int{1, 2, 3, 1000}[rng.Intn(4)], TxSeed: rng.Int63()}
	n := 6 + rng.Intn(14)
	// a quarter of the scripts restart often (queues that survive several restarts while partly consumed)
	restartFrom := 92
	if id%4 == 3 {
		restartFrom = 74
	}
	for i := 0; i < n; i++ {
		switch p := rng.Intn(100); {
		case p >= restartFrom:
			c.Ops = append(c.Ops, "restart")
		case p < 30:
			c.Ops = append(c.Ops, fmt.Sprintf("inj:%d:%s", 1+rng.Intn(4), []string{"new", "new", "repeat", "dup"}[rng.Intn(4)]))
		case p < 60:
			c.Ops = append(c.Ops, "reap")
		default:
			c.Ops = append(c.Ops, "prod")
		}
	}
	return c
}

// genBig makes a large-hand-off script: transactions of some hundred KB are injected 3-9 at a
// time (now and then with a few small ones), so that one hand-off of the reaper carries 1-5 MB
// and, after refusals, the backlog of several injections; the queue bound is 1-3 and the chain
// produces more slowly than the reaper hands off, so hand-offs meet a full or nearly full queue.
func genBig(rng *rand.Rand, id int) Case {
	c := Case{ID: id, Queue: 1 + rng.Intn(3), TxSeed: rng.Int63()}
	lo := 120 + rng.Intn(200)
	c.BigTxKB = [2]int{lo, lo + 40 + rng.Intn(200)}
	n := 8 + rng.Intn(8)
	pProd := 15 + rng.Intn(25) // percent of the operations that produce a block
	c.Ops = append(c.Ops, fmt.Sprintf("inj:%d:big", 5+rng.Intn(8)), "reap")
	for i := 0; i < n; i++ {
		switch p := rng.Intn(100); {
		case p < pProd:
			c.Ops = append(c.Ops, "prod")
		case p < pProd+30:
			c.Ops = append(c.Ops, fmt.Sprintf("inj:%d:big", 3+rng.Intn(7)))
			if rng.Intn(3) == 0 {
				c.Ops = append(c.Ops, fmt.Sprintf("inj:%d:%s", 1+rng.Intn(3), []string{"new", "repeat"}[rng.Intn(2)]))
			}
		case p < pProd+33:
			c.Ops = append(c.Ops, "restart")
		default:
			c.Ops = append(c.Ops, "reap")
		}
	}
	return c
}

// Run is the check entry point.
func Run(r *vk.Run) {
	world.Silence()
	r.Rule = "operation scripts {inject 1-4 txs (new | repeat of earlier bytes | duplicate within the mempool), reap (real Reaper.SubmitTxs), produce (real Manager step), clean restart} on the real Reaper + real single sequencer (queue bound 1|2|3|1000, so hand-offs are refused) + real aggregator Manager sharing one datastore; for the first three reap and the first three produce operations of every script the operation is additionally cut by a crash after durable write k = 0..W (enumerated until the operation completes), followed by a restart; then reap/produce rounds until quiescence. Large-hand-off scripts (crash-free): transactions of 120-520 KB injected 3-12 at a time, queue bound 1|2|3, 15-40 % of the operations produce a block, so single hand-offs of 1-10 MB (above the payload of one DA blob) are refused and retried. Oracle: every tx the mempool handed out is in the chain; non-empty blocks = released batches in release order; without crashes a tx is in the chain at most as often as the mempool offered it. non-trivial = a crash strictly inside an operation or a refused hand-off; distinct by (queue bound, operation list)"
	r.Assume("mempool double per contract: GetTxs does not remove, executed transactions leave the mempool; identity of a transaction is its bytes (as in the reaper)")
	r.Assume("MemDS double: one durable write = one Put/Delete/Batch.Commit; reaper seen-set, sequencer queue and block store share the datastore as in the node")
	rng := r.Rand("cases")
	nBase := r.N(150, 4000)
	var bases []Case
	for i := 0; i < nBase; i++ {
		bases = append(bases, genBase(rng, i))
	}
	var wg sync.WaitGroup
	ch := make(chan Case)
	for w := 0; w < 14; w++ {
		wg.Add(1)
		go func() {
			defer wg.Done()
			for base := range ch {
				r.Guard(base, func() { run(r, base) }) // crash-free
				// crash variants: each of the first three reap / prod operations cut after write k
				seenReap, seenProd := 0, 0
				for pos, op := range base.Ops {
					kind := ""
					if op == "reap" && seenReap < 3 {
						seenReap++
						kind = "crash-reap"
					}
					if op == "prod" && seenProd < 3 {
						seenProd++
						kind = "crash-prod"
					}
					if kind == "" {
						continue
					}
					for k := 0; k < 40; k++ {
						c := base
						c.Ops = append(append(append([]string{}, base.Ops[:pos]...), fmt.Sprintf("%s:%d", kind, k)), base.Ops[pos+1:]...)
						var reached []bool
						r.Guard(c, func() { reached = run(r, c) })
						if len(reached) == 0 || !reached[0] {
							break
						}
						// a second crash, inside the production step that recovers from the first one (for the first
						// production crash of a script only: the recovery re-uses or rebuilds the interrupted block)
						if kind == "crash-prod" && seenProd == 1 {
							next := -1
							for q := pos + 1; q < len(c.Ops); q++ {
								if c.Ops[q] == "prod" {
									next = q
									break
								}
							}
							for k2 := 0; next >= 0 && k2 < 12; k2++ {
								c2 := c
								c2.Ops = append(append(append([]string{}, c.Ops[:next]...), fmt.Sprintf("crash-prod:%d", k2)), c.Ops[next+1:]...)
								var reached2 []bool
								r.Guard(c2, func() { reached2 = run(r, c2) })
								r.Hit("crash-during-recovery")
								if len(reached2) < 2 || !reached2[1] {
									break
								}
							}
						}
					}
				}
			}
		}()
	}
	for _, b := range bases {
		ch <- b
	}
	close(ch)
	wg.Wait()
	// large hand-offs against a short queue (crash-free; few at a time: every script holds some ten MB)
	brng := r.Rand("large-handoffs")
	var bigs []Case
	for i, n := 0, r.N(40, 400); i < n; i++ {
		bigs = append(bigs, genBig(brng, 1000000+i))
	}
	bch := make(chan Case)
	for w := 0; w < 4; w++ {
		wg.Add(1)
		go func() {
			defer wg.Done()
			for c := range bch {
				r.Guard(c, func() { run(r, c) })
			}
		}()
	}
	for _, c := range bigs {
		bch <- c
	}
	close(bch)
	wg.Wait()
	r.Require("large-handoff-script", int64(len(bigs)))
	// (not marked exhaustive: the fault dimension is enumerated completely, the contents are sampled)
	r.Require("no-loss", 500)
	r.Require("restart-after-crash", 100)
}
