// Package c08 decides C08: the pending-submission limit throttles but never deadlocks block production.
package c08

import (
	"context"
	"fmt"
	"math/rand"
	"strings"
	"sync"
	"time"

	"verifharness/vk"
	"verifharness/world"
)

// Level is the verification level claimed for this property.
const Level = "exploration"

// Case is one generated run.
type Case struct {
	ID      int    `json:"id"`
	Limit   uint64 `json:"limit"`
	Initial uint64 `json:"initial_height"`
	Pattern string `json:"block_pattern"` // cycled: e = empty, x = non-empty
	Outage  int    `json:"outage_rounds"`
	Burst   int    `json:"produce_steps_per_round"`
	Faults  string `json:"outage_fault"` // error | timeout | toobig | hdr-only | data-only
	Rounds  int    `json:"rounds_after_outage"`
	// Restart: "" never | "clean" a new Manager on the same store after some rounds | "crash" a production step is cut
	// after durable write CrashK and the node restarts
	Restart string `json:"restart"`
	Every   int    `json:"restart_every_rounds"`
	CrashK  int    `json:"crash_after_writes"`
}

func (c Case) key() string {
	return fmt.Sprintf("l%d i%d %s o%d b%d %s r%d %s/%d/%d", c.Limit, c.Initial, c.Pattern, c.Outage, c.Burst, c.Faults, c.Rounds, c.Restart, c.Every, c.CrashK)
}

type sim struct {
	r                  *vk.Run
	c                  Case
	ctx                context.Context
	n                  *world.Node
	seq                *world.SeqDouble
	da                 *world.DADouble
	t                  time.Time
	k                  int
	viol               []string
	declined, produced int
}

func (s *sim) height() uint64 { h, _ := s.n.Store.Height(s.ctx); return h }

// acceptedPrefix: the largest height h such that every blob needed for blocks <= h is on the DA double.
func (s *sim) acceptedPrefix(data bool) uint64 {
	have := map[uint64]bool{}
	for _, blobs := range s.da.AllBlobs() {
		for _, b := range blobs {
			if h, isData, ok := decodeHeight(b); ok && isData == data {
				have[h] = true
			}
		}
	}
	tip := s.height()
	last := s.c.Initial - 1
	for h := s.c.Initial; h <= tip; h++ {
		need := true
		if data {
			_, d, err := s.n.Store.GetBlockData(s.ctx, h)
			need = err == nil && len(d.Txs) > 0
		}
		if need && !have[h] {
			break
		}
		last = h
	}
	return last
}

func (s *sim) produceStep() {
	kind := s.c.Pattern[s.k%len(s.c.Pattern)]
	// the response is only consumed when the step is not declined; keep exactly one response queued
	if s.seq.Pending() == 0 {
		s.t = s.t.Add(time.Second)
		if kind == 'e' {
			s.seq.Push(world.SeqResp{Kind: world.SeqEmpty, Time: s.t})
		} else {
			s.seq.Push(world.SeqResp{Kind: world.SeqTxs, Time: s.t, Txs: [][]byte{[]byte(fmt.Sprintf("c08-%d-%d", s.c.ID, s.k))}})
		}
	}
	before := s.height()
	wh := before - s.acceptedPrefix(false)
	wd := before - s.acceptedPrefix(true)
	err := s.n.M.VerifPublishBlock(s.ctx)
	after := s.height()
	if err != nil && (after != before || (wh < s.c.Limit && wd < s.c.Limit)) {
		// (an error that merely says "declined, the limit is reached" is a way of declining)
		s.viol = append(s.viol, "production step failed: "+err.Error())
		return
	}
	if after == before {
		s.declined++
		s.r.Hit("declined-justified")
		if wh < s.c.Limit && wd < s.c.Limit {
			s.viol = append(s.viol, fmt.Sprintf("step declined at height %d with limit %d although only %d headers and %d data items are still waiting for DA acceptance", before, s.c.Limit, wh, wd))
		}
	} else {
		s.produced++
		s.k++
		s.r.Hit("produced")
		if wh >= s.c.Limit || wd >= s.c.Limit {
			s.r.Count("produced_although_at_limit", 1)
		}
		// the limit throttles: with MORE than limit blocks already waiting nothing may be produced (whether the step
		// that reaches the limit exactly is still taken is the implementation's choice)
		if wh > s.c.Limit || wd > s.c.Limit {
			s.viol = append(s.viol, fmt.Sprintf("block %d produced although %d headers / %d data items were already waiting (limit %d): the limit does not throttle", after, wh, wd, s.c.Limit))
		}
	}
}

func decodeHeight(blob []byte) (uint64, bool, bool) {
	return world.DecodeBlobHeight(blob)
}

func run(r *vk.Run, c Case) {
	ctx := context.Background()
	s := &sim{r: r, c: c, ctx: ctx, seq: world.NewSeqDouble(), da: world.NewDADouble(), t: world.GenesisTime}
	im := world.NewImage()
	exec := world.NewExecDouble()
	keys := world.NewKeys("proposer")
	start := func() error {
		n, err := world.NewNode(ctx, world.NodeOpts{Aggregator: true, InitialHeight: c.Initial, MaxPending: c.Limit}, keys, world.NewMemDS(im), exec, s.seq, s.da, nil)
		if err != nil {
			return err
		}
		s.n = n
		return nil
	}
	if err := start(); err != nil {
		r.Violation("startup", err.Error(), c)
		return
	}
	roundNo := 0
	wit := func() any { return map[string]any{"case": c, "declined": s.declined, "produced": s.produced} }
	round := func(faultH, faultD bool) {
		if faultH {
			for i := 0; i < 40; i++ {
				s.da.ScriptSubmit(world.SubmitOutcome{Kind: c.faultKind()})
			}
		}
		_ = s.n.M.VerifSubmitHeadersOnce(ctx)
		s.da.ClearSubmitScript()
		if faultD {
			for i := 0; i < 40; i++ {
				s.da.ScriptSubmit(world.SubmitOutcome{Kind: c.faultKind()})
			}
		}
		_ = s.n.M.VerifSubmitDataOnce(ctx)
		s.da.ClearSubmitScript()
		for i := 0; i < c.Burst; i++ {
			s.produceStep()
		}
		roundNo++
		if c.Restart != "" && c.Every > 0 && roundNo%c.Every == 0 {
			if c.Restart == "crash" {
				// the process dies inside a production step, after CrashK durable writes
				if s.seq.Pending() == 0 {
					s.t = s.t.Add(time.Second)
					s.seq.Push(world.SeqResp{Kind: world.SeqEmpty, Time: s.t})
				}
				s.n.DS.CrashAfter(c.CrashK)
				_ = s.n.M.VerifPublishBlock(ctx)
				r.Hit("restart-after-crash")
			} else {
				r.Hit("clean-restart")
			}
			if err := start(); err != nil {
				s.viol = append(s.viol, "restart failed: "+err.Error())
			}
		}
	}
	// outage
	for i := 0; i < c.Outage; i++ {
		fh, fd := true, true
		if c.Faults == "hdr-only" {
			fd = false
		}
		if c.Faults == "data-only" {
			fh = false
		}
		round(fh, fd)
	}
	// DA accepts everything again: production must resume and keep going
	h0 := s.height()
	for i := 0; i < c.Rounds; i++ {
		round(false, false)
	}
	h1 := s.height()
	r.Hit("resumes")
	// per round at most min(Burst, limit) blocks can be produced; at least one per round (minus one round of slack)
	if int(h1-h0) < c.Rounds-1 {
		s.viol = append(s.viol, fmt.Sprintf("with an accepting DA layer %d rounds of (submit headers, submit data, %d production steps) raised the height only from %d to %d", c.Rounds, c.Burst, h0, h1))
	}
	if len(s.viol) > 0 {
		id := "C08-empty-data-watermark"
		detail := strings.Join(s.viol[:min(len(s.viol), 4)], " ;; ")
		if r.IsKnown(id) && strings.Contains(c.Pattern, "e") {
			r.Finding(id, "throttle", detail, wit())
		} else {
			r.Violation("throttle", detail, wit())
		}
	}
	r.Count("steps_declined", int64(s.declined))
	r.Count("blocks_produced", int64(s.produced))
	r.Eval(c.key(), s.declined > 0, c)
}

func (c Case) faultKind() string {
	switch c.Faults {
	case "timeout", "toobig":
		return c.Faults
	}
	return "error"
}

// Run is the check entry point.
func Run(r *vk.Run) {
	world.Silence()
	r.Rule = "seeded runs of a real aggregator with MaxPendingHeadersAndData = limit in {1,2,3,5}: rounds of (one header-submission iteration, one data-submission iteration, 1-4 production steps); a DA outage of 0-6 rounds (all submissions fail, or only the header / only the data stream), then an accepting DA layer; block patterns all-empty, all-non-empty, alternating, long empty tails; initial height {1,4}; in half of the runs the node is restarted every 1-4 rounds (clean, or by a crash inside a production step after 0-6 durable writes), also during the outage. Safety per production step: declined => >= limit blocks are beyond the accepted prefix of the header or of the data stream (empty blocks need no data blob); produced => fewer than limit. Liveness: R accepting rounds raise the height by >= R-1. non-trivial = at least one declined step; distinct by parameter tuple. LIVE runs: the node's own HeaderSubmissionLoop and DataSubmissionLoop run (DA block time 1 ms) concurrently with production attempts; cycles of {DA refuses everything until the limit is reached and N submissions were refused (N up to 190: several whole failed submission rounds of 30 attempts), DA accepts again while production is attempted continuously}; declined => the node's own pending counts read just before the step reach the limit; produced => counts read just after do not exceed it; after the outage 8000 production attempts must raise the height by limit+1. BUSY/CANCELLING DA (live runs of their own): after the outage of some cycles the DA double accepts but confirms every submission only 5-20 ms (= configured DA block times) after it was sent, honouring the caller's context (a caller that gives up first gets its context's error, nothing is stored; judged by the clock); outages whose refusals are cancellations (context.Canceled / the DA interface's ErrContextCanceled) while the node was not asked to stop; same oracle. LOOP runs: the node's own AggregationLoop (normal and lazy, idle interval 1 h) with both submission loops: production comes to rest at the limit during an outage, one more request is declined, after the outage the chain must grow within 15 s; in the reaper variant (lazy) the requests are transactions put into the execution double's mempool and announced by the node's own Reaper, one at a time so that no attempt is outstanding when the limit is reached, the last one while production is paused"
	r.Assume("a submission round is atomic in the harness: header iteration directly followed by data iteration (the two ticker loops of the node have the same period); production steps do not interleave between them")
	rng := r.Rand("cases")
	n := r.N(300, 25000)
	patterns := []string{"e", "x", "ex", "xe", "xeeeee", "eeeex", "xxe", "eexx"}
	faults := []string{"error", "timeout", "toobig", "hdr-only", "data-only"}
	var cases []Case
	for i := 0; i < n; i++ {
		cases = append(cases, Case{ID: i, Limit: []uint64{1, 2, 3, 5}[rng.Intn(4)], Initial: []uint64{1, 4}[rng.Intn(2)],
			Pattern: patterns[rng.Intn(len(patterns))], Outage: rng.Intn(7), Burst: 1 + rng.Intn(4), Faults: faults[rng.Intn(len(faults))], Rounds: 4 + rng.Intn(8),
			Restart: []string{"", "", "clean", "crash"}[rng.Intn(4)], Every: 1 + rng.Intn(4), CrashK: rng.Intn(7)})
	}
	var live []LiveCase
	for i := 0; i < r.N(300, 4000); i++ {
		live = append(live, genLive(rng, n+i, r.Quick()))
	}
	busyRng := r.Rand("live-busy-da")
	for i := 0; i < r.N(24, 300); i++ {
		live = append(live, genLiveBusy(busyRng, n+10000+i))
	}
	var loopCases []LoopCase
	for i := 0; i < r.N(24, 300); i++ {
		loopCases = append(loopCases, genLoop(rng, n+5000+i))
	}
	reaperRng := r.Rand("loop-reaper")
	for i := 0; i < r.N(8, 80); i++ {
		loopCases = append(loopCases, genLoopReaper(reaperRng, n+20000+i))
	}
	var wg sync.WaitGroup
	ch := make(chan any)
	for w := 0; w < 14; w++ {
		wg.Add(1)
		go func() {
			defer wg.Done()
			for j := range ch {
				switch c := j.(type) {
				case Case:
					r.Guard(c, func() { run(r, c) })
				case LiveCase:
					r.Guard(c, func() { runLive(r, c) })
				case LoopCase:
					r.Guard(c, func() { runLoop(r, c) })
				case ParkCase:
					r.Guard(c, func() { runPark(r, c) })
				}
			}
		}()
	}
	for _, c := range cases {
		ch <- c
	}
	for _, c := range live {
		ch <- c
	}
	for _, c := range loopCases {
		ch <- c
	}
	pid := 0
	for _, who := range []string{"agg", "hdr", "data"} {
		for k := 1; k <= r.N(10, 16); k++ {
			for _, limit := range []uint64{2, 3, 5}[:r.N(2, 3)] {
				pid++
				ch <- ParkCase{ID: n + 30000 + pid, Limit: limit, Who: who, K: k}
			}
		}
	}
	close(ch)
	wg.Wait()
	r.Require("live-resumes", int64(len(live)))
	r.Require("live-busy-da-after-outage", 10)
	r.Require("loop-reaped-during-pause", 8)
	r.Require("live-declined-justified", 100)
	r.Require("declined-justified", 50)
	r.Require("resumes", int64(n))
}

var _ = rand.Int
