package c08

// Overlaps of the production loop with the submission loops at the moment the throttle should release, forced from the
// datastore double: a loop is parked at the start of its k-th datastore call - a point at which nothing of the node waits
// for anything external - while the other side completes what it is doing. Lazy mode, idle interval one hour: only the
// node's own hand-over between "declined at the limit" and "the DA layer accepted the backlog" can bring the block that
// was asked for. Both sequential orders are what runLoop does; these are the overlaps.
//   who = "agg": the production attempt that will be (or has just been) declined is parked; meanwhile the DA layer accepts
//                everything and both watermarks reach the tip; then the attempt goes on.
//   who = "hdr" | "data": after a declined attempt the DA layer accepts again; the submission loop whose submission was accepted is
//                parked at its k-th datastore call after that answer (before, or in the middle of, recording it); the
//                production loop gets the time to make an attempt (until it has touched the datastore and is quiet again); then
//                the submission goes on.

import (
	"context"
	"fmt"
	"sync"
	"sync/atomic"
	"time"

	coreda "github.com/evstack/ev-node/core/da"

	"verifharness/vk"
	"verifharness/world"
)

type ParkCase struct {
	ID    int    `json:"id"`
	Limit uint64 `json:"limit"`
	Who   string `json:"parked_loop"`
	K     int    `json:"parked_at_datastore_call"`
}

func (c ParkCase) key() string { return fmt.Sprintf("park %s k%d l%d", c.Who, c.K, c.Limit) }

// markDA marks the goroutine whose submission the DA layer has just accepted.
type markDA struct {
	*world.DADouble
	accepted func()
}

func (d *markDA) Submit(ctx context.Context, blobs []coreda.Blob, gasPrice float64, ns []byte) ([]coreda.ID, error) {
	ids, err := d.DADouble.Submit(ctx, blobs, gasPrice, ns)
	if err == nil && len(ids) > 0 {
		d.accepted()
	}
	return ids, err
}

func (d *markDA) SubmitWithOptions(ctx context.Context, blobs []coreda.Blob, gasPrice float64, ns []byte, opts []byte) ([]coreda.ID, error) {
	ids, err := d.DADouble.SubmitWithOptions(ctx, blobs, gasPrice, ns, opts)
	if err == nil && len(ids) > 0 {
		d.accepted()
	}
	return ids, err
}

func runPark(r *vk.Run, c ParkCase) {
	ctx := context.Background()
	seq, da := world.NewSeqDouble(), world.NewDADouble()
	genesis := time.Now().Add(-time.Hour)
	t := genesis
	seq.Auto = func(n int) *world.SeqResp {
		t = t.Add(time.Second)
		return &world.SeqResp{Kind: world.SeqTxs, Time: t, Txs: [][]byte{[]byte(fmt.Sprintf("c08park-%d-%d", c.ID, n))}}
	}
	dsp := world.NewMemDS(world.NewImage())
	var armed atomic.Bool
	var submitted sync.Map // goroutine id -> the DA layer has just accepted a submission made from it
	mda := &markDA{DADouble: da, accepted: func() {
		if armed.Load() {
			submitted.Store(world.GoID(), true)
		}
	}}
	n, err := world.NewNode(ctx, world.NodeOpts{Aggregator: true, InitialHeight: 1, MaxPending: c.Limit, Lazy: true,
		BlockTime: 2 * time.Millisecond, LazyInterval: time.Hour, DABlockTime: time.Millisecond, GenesisTime: genesis},
		world.NewKeys("proposer"), dsp, world.NewExecDouble(), seq, mda, nil)
	if err != nil {
		r.Violation("startup", err.Error(), c)
		return
	}
	var cnt atomic.Int64
	entered, release := make(chan struct{}, 1), make(chan struct{})
	released := false
	free := func() {
		if !released {
			released = true
			close(release)
		}
	}
	var aggID, subID atomic.Uint64
	var aggCalls atomic.Int64
	dsp.Yield = func() {
		id := world.GoID()
		if id == aggID.Load() {
			aggCalls.Add(1)
		}
		if !armed.Load() {
			return
		}
		if c.Who == "agg" {
			if id != aggID.Load() {
				return
			}
		} else if _, ok := submitted.Load(id); !ok || id != subID.Load() {
			return
		}
		if cnt.Add(1) == int64(c.K) && armed.CompareAndSwap(true, false) {
			entered <- struct{}{}
			<-release
		}
	}
	dsp.BeforeWrite = func([]string) { dsp.Yield() } // writes are datastore calls too
	loops := world.StartLoops(ctx, n, "aggregation", "headerSubmit", "dataSubmit")
	defer func() { free(); _ = loops.Stop() }()
	height := func() uint64 { h, _ := n.Store.Height(ctx); return h }
	waitUntil := func(d time.Duration, cond func() bool) bool {
		deadline := time.Now().Add(d)
		for time.Now().Before(deadline) {
			if cond() {
				return true
			}
			time.Sleep(500 * time.Microsecond)
		}
		return cond()
	}
	pendingAtLimit := func() bool {
		_, _, ph, pd := n.M.VerifWatermarks()
		return ph >= c.Limit || pd >= c.Limit
	}
	// a prefix that is completely on the DA layer: the first block of a chain carries no transactions, and with it alone
	// pending the data stream would never be the one at the limit
	if !waitUntil(10*time.Second, func() bool {
		if height() < 2 {
			n.M.NotifyNewTransactions()
			time.Sleep(2 * time.Millisecond)
			return false
		}
		_, _, ph, pd := n.M.VerifWatermarks()
		return ph == 0 && pd == 0
	}) {
		r.Inconclusive(fmt.Sprintf("park case %d: the first requested block was not produced and accepted within 10 s", c.ID))
		return
	}
	da.SetDefaultSubmit("error")
	if c.Who == "agg" {
		// one block per request, up to the limit: the attempt parked below is the FIRST one the limit declines
		time.Sleep(5 * time.Millisecond)
		for i := 0; i < 64 && !pendingAtLimit(); i++ {
			h := height()
			n.M.NotifyNewTransactions()
			if !waitUntil(5*time.Second, func() bool { return height() > h }) {
				r.Inconclusive(fmt.Sprintf("park case %d: a requested block below the limit was not produced within 5 s", c.ID))
				return
			}
			time.Sleep(5 * time.Millisecond)
		}
	}
	stuck := c.Who == "agg" && pendingAtLimit() || waitUntil(10*time.Second, func() bool {
		n.M.NotifyNewTransactions()
		if !pendingAtLimit() {
			return false
		}
		h := height()
		time.Sleep(10 * time.Millisecond)
		return pendingAtLimit() && height() == h
	})
	if !stuck || !waitUntil(time.Second, func() bool { return loops.GoID("aggregation") != 0 }) {
		r.Inconclusive(fmt.Sprintf("park case %d: production did not come to rest at the limit during the outage", c.ID))
		return
	}
	aggID.Store(loops.GoID("aggregation"))
	subID.Store(loops.GoID(map[string]string{"hdr": "headerSubmit", "data": "dataSubmit"}[c.Who]))
	time.Sleep(10 * time.Millisecond) // notifications given while running into the limit have been served (and declined)
	h0 := height()
	parked := false
	if c.Who == "agg" {
		armed.Store(true)
		n.M.NotifyNewTransactions()
		select {
		case <-entered:
			parked = true
		case <-time.After(500 * time.Millisecond):
			armed.Store(false) // an attempt makes fewer than k datastore calls
		}
		da.SetDefaultSubmit("accept")
		if !waitUntil(10*time.Second, func() bool { _, _, ph, pd := n.M.VerifWatermarks(); return ph == 0 && pd == 0 }) {
			free()
			r.Inconclusive(fmt.Sprintf("park case %d: the backlog was not accepted within 10 s while the production attempt was parked", c.ID))
			return
		}
		free()
	} else {
		n.M.NotifyNewTransactions()
		time.Sleep(20 * time.Millisecond)
		if height() != h0 {
			r.Inconclusive(fmt.Sprintf("park case %d: the request made during the outage was not declined", c.ID))
			return
		}
		armed.Store(true)
		da.SetDefaultSubmit("accept")
		select {
		case <-entered:
			parked = true
			// the production loop gets the time to act on whatever it was told: until it has touched the datastore (an
			// attempt reads the pending counts from it) and has been quiet for 10 ms, at most 1 s
			c0 := aggCalls.Load()
			waitUntil(3*time.Second, func() bool { return aggCalls.Load() > c0 })
			quietBy := time.Now().Add(time.Second) // a loop that keeps asking (and being declined) is never quiet
			for last := int64(-1); last != aggCalls.Load() && time.Now().Before(quietBy); {
				last = aggCalls.Load()
				time.Sleep(10 * time.Millisecond)
			}
		case <-time.After(2 * time.Second):
			armed.Store(false)
		}
		free()
	}
	if parked {
		r.Hit("loop-parked-at-the-release-of-the-throttle-" + c.Who)
	} else {
		r.Count("park_point_not_reached", 1)
	}
	resumed := waitUntil(liveWait, func() bool { return height() >= h0+1 })
	r.Hit("loop-resumes")
	if !resumed {
		_, _, ph, pd := n.M.VerifWatermarks()
		what := "the production attempt asked for by a transaction notification was parked at the start of its datastore call #%d while the DA layer accepted the whole backlog"
		if c.Who != "agg" {
			what = "after a declined production attempt the DA layer accepted again and the " + c.Who + " submission loop was parked at the start of its datastore call #%d after the accepted submission"
		}
		if !parked {
			what = "(park point #%d not reached: plain sequence)"
		}
		r.Violation("throttle-loop", fmt.Sprintf(what+"; %v after everything went on the node's own production loop (lazy mode, the transaction is waiting, idle interval 1 h) has raised the height only from %d to %d (limit %d; the node counts %d pending headers, %d pending data items)",
			c.K, liveWait, h0, height(), c.Limit, ph, pd), map[string]any{"case": c})
	}
	r.Eval(c.key(), parked, c)
}
