package c08

import (
	"context"
	"fmt"
	"math/rand"
	"runtime"
	"strings"
	"time"

	"verifharness/vk"
	"verifharness/world"
)

// LiveCase is one run with the node's own submission loops running concurrently with production.
type LiveCase struct {
	ID      int    `json:"id"`
	Limit   uint64 `json:"limit"`
	Pattern string `json:"block_pattern"`
	Cycles  int    `json:"outage_cycles"`
	// OutageCalls: the outage of each cycle lasts until the DA double has refused this many further submissions
	// (one submission round of the node gives up after 30 attempts: values above 60 span whole failed rounds)
	OutageCalls []int  `json:"outage_submissions"`
	Fault       string `json:"outage_fault"`
	Yield       bool   `json:"yield_in_datastore"`
	Tight       int    `json:"tight_attempts_after_heal"`
	// LatencyMs (cycled over the outage cycles; 0 = answers at once): after the outage of that cycle the DA layer is
	// busy: it accepts every submission but confirms it only this many milliseconds (= configured DA block times) after
	// it was sent. The double honours the caller's context while it waits (a caller that gives up gets its context's
	// error and nothing is stored).
	LatencyMs []int `json:"busy_da_confirmation_latency_ms,omitempty"`
}

func (c LiveCase) key() string {
	k := fmt.Sprintf("live l%d %s c%d %v %s y%v t%d", c.Limit, c.Pattern, c.Cycles, c.OutageCalls, c.Fault, c.Yield, c.Tight)
	if len(c.LatencyMs) > 0 {
		k += fmt.Sprintf(" lat%v", c.LatencyMs)
	}
	return k
}

// after the DA layer is healthy again production is attempted at least liveAttempts times and for at least liveWait
// (15 000 DA block times of this configuration) before "never resumes" is reported
const (
	liveAttempts = 8000
	liveWait     = 15 * time.Second
)

// runLive: HeaderSubmissionLoop and DataSubmissionLoop of the node run for real (DA block time 1 ms) while the driver
// makes production steps. Each cycle: DA refuses everything until the limit is reached and the outage has lasted the
// planned number of refused submissions; then the DA layer accepts again while the driver keeps attempting to produce.
//
// Oracle (all counts are the node's own pending counts, read by the producing goroutine; between such a read and the
// step only the submission loops act, and they only lower the counts):
//   - a step that declines although both counts read just before it were below the limit is unjustified;
//   - a step that produces although a count read just after it exceeds the limit broke the bound;
//   - after the DA layer is healthy again, production attempts (each yielding to the loops, the later ones sleeping
//     200 us; at least liveAttempts of them and at least liveWait of wall clock) must raise the height by limit+1: the throttle has released and keeps releasing.
func runLive(r *vk.Run, c LiveCase) {
	ctx := context.Background()
	seq, da := world.NewSeqDouble(), world.NewDADouble()
	im := world.NewImage()
	ds := world.NewMemDS(im)
	if c.Yield {
		ds.Yield = runtime.Gosched
	}
	n, err := world.NewNode(ctx, world.NodeOpts{Aggregator: true, InitialHeight: 1, MaxPending: c.Limit, DABlockTime: time.Millisecond},
		world.NewKeys("proposer"), ds, world.NewExecDouble(), seq, da, nil)
	if err != nil {
		r.Violation("startup", err.Error(), c)
		return
	}
	loops := world.StartLoops(ctx, n, "headerSubmit", "dataSubmit")
	defer func() { _ = loops.Stop() }()
	t := world.GenesisTime
	k := 0
	var viol []string
	declined, produced := 0, 0
	height := func() uint64 { h, _ := n.Store.Height(ctx); return h }
	step := func() bool {
		if seq.Pending() == 0 {
			t = t.Add(time.Second)
			if c.Pattern[k%len(c.Pattern)] == 'e' {
				seq.Push(world.SeqResp{Kind: world.SeqEmpty, Time: t})
			} else {
				seq.Push(world.SeqResp{Kind: world.SeqTxs, Time: t, Txs: [][]byte{[]byte(fmt.Sprintf("c08l-%d-%d", c.ID, k))}})
			}
		}
		_, _, ph0, pd0 := n.M.VerifWatermarks()
		before := height()
		err := n.M.VerifPublishBlock(ctx)
		after := height()
		_, _, ph1, pd1 := n.M.VerifWatermarks()
		if err != nil && (after != before || (ph0 < c.Limit && pd0 < c.Limit)) {
			viol = append(viol, "production step failed: "+err.Error())
			return false
		}
		if after == before {
			declined++
			r.Hit("live-declined-justified")
			if ph0 < c.Limit && pd0 < c.Limit {
				viol = append(viol, fmt.Sprintf("step declined at height %d with limit %d although the node itself counted only %d pending headers and %d pending data items just before it (and the counts only fall in between)", before, c.Limit, ph0, pd0))
			}
			return false
		}
		produced++
		k++
		r.Hit("live-produced")
		if ph1 > c.Limit+1 || pd1 > c.Limit+1 {
			viol = append(viol, fmt.Sprintf("block %d was produced and right afterwards %d headers / %d data items are pending: more than the limit %d", after, ph1, pd1, c.Limit))
		}
		return true
	}
	for cyc := 0; cyc < c.Cycles && len(viol) == 0; cyc++ {
		da.ConfirmLatency.Store(0)
		da.SetDefaultSubmit(c.Fault)
		calls0 := da.SubmitCalls()
		// fill up to the limit
		for i := 0; i < int(c.Limit)+3; i++ {
			if !step() {
				break
			}
		}
		// the outage lasts until the planned number of submissions has been refused (or the loops stopped trying)
		want := c.OutageCalls[cyc%len(c.OutageCalls)]
		for i := 0; i < 20000 && da.SubmitCalls()-calls0 < want; i++ {
			if i%7 == 0 {
				step() // production keeps being attempted during the outage
			}
			time.Sleep(100 * time.Microsecond)
		}
		r.Count("live_outage_submissions_refused", int64(da.SubmitCalls()-calls0))
		h0 := height()
		callsHeal := da.SubmitCalls()
		lat := 0
		if len(c.LatencyMs) > 0 {
			lat = c.LatencyMs[cyc%len(c.LatencyMs)]
		}
		if lat > 0 {
			r.Hit("live-busy-da-after-outage")
		}
		da.ConfirmLatency.Store(int64(time.Duration(lat) * time.Millisecond))
		da.SetDefaultSubmit("accept")
		resumed := false
		healed := time.Now()
		attempts := 0
		for i := 0; i < liveAttempts || time.Since(healed) < liveWait; i++ {
			attempts++
			step()
			if height() >= h0+c.Limit+1 {
				resumed = true
				break
			}
			if len(viol) > 0 {
				break
			}
			if i < c.Tight {
				runtime.Gosched()
			} else {
				time.Sleep(200 * time.Microsecond)
			}
		}
		r.Hit("live-resumes")
		if !resumed && len(viol) == 0 {
			_, _, ph, pd := n.M.VerifWatermarks()
			how := "the DA layer accepts again"
			if lat > 0 {
				how = fmt.Sprintf("the DA layer accepts again (it confirms every submission %d ms after it was sent; configured DA block time 1 ms)", lat)
			}
			gone := ""
			if loops.Exited("headerSubmit") || loops.Exited("dataSubmit") {
				gone = fmt.Sprintf("; submission loops that have returned although the node was not stopped: header=%v data=%v", loops.Exited("headerSubmit"), loops.Exited("dataSubmit"))
			}
			viol = append(viol, fmt.Sprintf("cycle %d (outage answers: %s): %s, %d production attempts were made in %v and the height went only from %d to %d (limit %d; the node counts %d pending headers, %d pending data items; the DA double received %d submissions since the outage ended%s)",
				cyc, c.Fault, how, attempts, time.Since(healed).Round(time.Millisecond), h0, height(), c.Limit, ph, pd, da.SubmitCalls()-callsHeal, gone))
		}
	}
	if len(viol) > 0 {
		r.Violation("throttle-live", strings.Join(viol[:min(len(viol), 3)], " ;; "), map[string]any{"case": c, "declined": declined, "produced": produced})
	}
	r.Count("live_steps_declined", int64(declined))
	r.Count("live_blocks_produced", int64(produced))
	r.Eval(c.key(), declined > 0 && produced > int(c.Limit), c)
}

func genLive(rng *rand.Rand, id int, quick bool) LiveCase {
	patterns := []string{"e", "x", "ex", "xe", "xeee", "eex"}
	c := LiveCase{ID: id, Limit: []uint64{1, 2, 3, 5}[rng.Intn(4)], Pattern: patterns[rng.Intn(len(patterns))],
		Fault: []string{"error", "timeout", "toobig", "error"}[rng.Intn(4)], Yield: rng.Intn(3) != 0, Tight: []int{0, 50, 400, 2000}[rng.Intn(4)]}
	switch rng.Intn(4) {
	case 0:
		// long outages: longer than a whole submission round of the node (30 attempts) for both streams
		c.Cycles = 2
		c.OutageCalls = []int{70 + rng.Intn(60), 130 + rng.Intn(60)}
	default:
		// many short outages: the acceptance that empties the pending lists races with production attempts
		c.Cycles = 40 + rng.Intn(60)
		c.OutageCalls = []int{1 + rng.Intn(4), 2 + rng.Intn(6), 1}
	}
	if c.Fault == "timeout" {
		// a timed-out submission is retried after DA block time x mempool TTL: keep these outages short in calls
		for i := range c.OutageCalls {
			if c.OutageCalls[i] > 70 {
				c.OutageCalls[i] = 62 + rng.Intn(8)
			}
		}
	}
	return c
}

// genLiveBusy: live runs against a DA layer that (a) is busy after an outage - every submission is accepted but
// confirmed only 5-20 configured DA block times after it was sent, with a client that honours the context it is given -
// and/or (b) answers the submissions of an outage with a cancellation (context.Canceled, or the DA interface's
// cancellation sentinel) while the node itself has not been asked to stop.
func genLiveBusy(rng *rand.Rand, id int) LiveCase {
	patterns := []string{"e", "x", "ex", "xe", "xeee", "eex"}
	c := LiveCase{ID: id, Limit: []uint64{1, 2, 3, 5}[rng.Intn(4)], Pattern: patterns[rng.Intn(len(patterns))],
		Yield: rng.Intn(3) != 0, Tight: []int{0, 50, 400}[rng.Intn(3)], Cycles: 3 + rng.Intn(6)}
	lat := func() int { return 5 + rng.Intn(16) }
	switch id % 3 {
	case 0:
		// busy DA layer after ordinary outages
		c.Fault = []string{"error", "timeout", "toobig"}[rng.Intn(3)]
		c.LatencyMs = []int{lat(), 0, lat()}
	case 1:
		// cancellations coming from the DA side
		c.Fault = []string{"cancelled", "cancelledda"}[rng.Intn(2)]
	default:
		// both
		c.Fault = []string{"cancelled", "cancelledda"}[rng.Intn(2)]
		c.LatencyMs = []int{0, lat()}
	}
	c.OutageCalls = []int{1 + rng.Intn(4), 2 + rng.Intn(10), 1}
	if rng.Intn(4) == 0 {
		c.OutageCalls = []int{40 + rng.Intn(40)}
	}
	return c
}
