package c08

import (
	"context"
	"fmt"
	"math/rand"
	"sync/atomic"
	"time"

	logging "github.com/ipfs/go-log/v2"

	"github.com/evstack/ev-node/block"
	coresequencer "github.com/evstack/ev-node/core/sequencer"

	"verifharness/vk"
	"verifharness/world"
)

// LoopCase is one run in which the node's own production loop (normal or lazy mode) runs against the limit, together
// with its two submission loops.
type LoopCase struct {
	ID      int    `json:"id"`
	Limit   uint64 `json:"limit"`
	Lazy    bool   `json:"lazy"`
	Pattern string `json:"block_pattern"`
	Cycles  int    `json:"outage_cycles"`
	// NotifyAfterHeal: lazy mode only: false = the only notification of new transactions arrives during the outage (the
	// transactions wait in the mempool; nothing new arrives afterwards)
	NotifyAfterHeal bool `json:"notifications_continue_after_the_outage"`
	// Reaper (lazy mode only): nobody notifies the manager directly; transactions are put into the execution double's
	// mempool and the node's own Reaper (interval = block time) hands them to the sequencer and announces them. They
	// arrive one at a time, the next only after the block asked for by the previous one: when the limit is reached no
	// production attempt is outstanding. One more transaction arrives while production is paused.
	Reaper bool `json:"transactions_through_the_reaper,omitempty"`
}

func (c LoopCase) key() string {
	k := fmt.Sprintf("loop l%d lazy=%v %s c%d n%v", c.Limit, c.Lazy, c.Pattern, c.Cycles, c.NotifyAfterHeal)
	if c.Reaper {
		k += " reaper"
	}
	return k
}

// countingSeq counts the batches the reaper handed to the sequencer.
type countingSeq struct {
	*world.SeqDouble
	n atomic.Int64
}

func (s *countingSeq) SubmitBatchTxs(ctx context.Context, req coresequencer.SubmitBatchTxsRequest) (*coresequencer.SubmitBatchTxsResponse, error) {
	res, err := s.SeqDouble.SubmitBatchTxs(ctx, req)
	s.n.Add(1)
	return res, err
}

// runLoop: AggregationLoop, HeaderSubmissionLoop and DataSubmissionLoop of one aggregator run for real (block time 2 ms,
// DA block time 1 ms; lazy mode with an idle interval of one hour, so that only notifications produce blocks). Each cycle:
// the DA layer refuses everything until production has stopped at the limit, then accepts again. Oracle: the node's own
// pending counts never exceed limit+1; once the DA layer accepts again the chain must grow (by limit+1 blocks; in lazy mode without
// further notifications by the one block that was asked for and declined) within liveWait (15 s = 7 500 block intervals) - the loop itself has to come back, nobody calls it.
func runLoop(r *vk.Run, c LoopCase) {
	ctx := context.Background()
	seq, da := world.NewSeqDouble(), world.NewDADouble()
	genesis := time.Now().Add(-time.Hour)
	t := genesis
	seq.Auto = func(n int) *world.SeqResp {
		t = t.Add(time.Second)
		if c.Pattern[n%len(c.Pattern)] == 'e' {
			return &world.SeqResp{Kind: world.SeqEmpty, Time: t}
		}
		return &world.SeqResp{Kind: world.SeqTxs, Time: t, Txs: [][]byte{[]byte(fmt.Sprintf("c08loop-%d-%d", c.ID, n))}}
	}
	exec := world.NewExecDouble()
	cseq := &countingSeq{SeqDouble: seq}
	n, err := world.NewNode(ctx, world.NodeOpts{Aggregator: true, InitialHeight: 1, MaxPending: c.Limit, Lazy: c.Lazy,
		BlockTime: 2 * time.Millisecond, LazyInterval: time.Hour, DABlockTime: time.Millisecond, GenesisTime: genesis},
		world.NewKeys("proposer"), world.NewMemDS(world.NewImage()), exec, cseq, da, nil)
	if err != nil {
		r.Violation("startup", err.Error(), c)
		return
	}
	loops := world.StartLoops(ctx, n, "aggregation", "headerSubmit", "dataSubmit")
	defer func() { _ = loops.Stop() }()
	if c.Reaper {
		rctx, rcancel := context.WithCancel(ctx)
		reaper := block.NewReaper(rctx, exec, cseq, "verif-chain", 2*time.Millisecond, logging.Logger("verif-reaper"), world.NewMemDS(world.NewImage()))
		reaper.SetManager(n.M)
		done := make(chan struct{})
		go func() { reaper.Start(rctx); close(done) }()
		defer func() {
			rcancel()
			select {
			case <-done:
			case <-time.After(world.Watchdog):
			}
		}()
	}
	height := func() uint64 { h, _ := n.Store.Height(ctx); return h }
	txN := 0
	notify := func() {
		if c.Reaper {
			txN++
			exec.Inject([]byte(fmt.Sprintf("c08reap-%d-%d", c.ID, txN)))
		} else if c.Lazy {
			n.M.NotifyNewTransactions()
		}
	}
	waitUntil := func(d time.Duration, cond func() bool) bool {
		deadline := time.Now().Add(d)
		for time.Now().Before(deadline) {
			if cond() {
				return true
			}
			time.Sleep(500 * time.Microsecond)
		}
		return cond()
	}
	var viol []string
	maxPending := uint64(0)
	sample := func() {
		_, _, ph, pd := n.M.VerifWatermarks()
		if ph < 1<<40 && ph > maxPending {
			maxPending = ph
		}
		if pd < 1<<40 && pd > maxPending {
			maxPending = pd
		}
	}
	for cyc := 0; cyc < c.Cycles && len(viol) == 0; cyc++ {
		da.SetDefaultSubmit("error")
		time.Sleep(5 * time.Millisecond) // submissions that were in flight when the outage began have ended
		pendingAtLimit := func() bool {
			_, _, ph, pd := n.M.VerifWatermarks()
			return ph >= c.Limit || pd >= c.Limit
		}
		// production runs into the limit (in lazy mode every block needs a notification) and stays there
		lastAsk := ^uint64(0)
		stuck := waitUntil(10*time.Second, func() bool {
			if !c.Reaper {
				notify()
			} else if h := height(); h != lastAsk && !pendingAtLimit() {
				// one transaction, and the next one only after the block it asked for
				lastAsk = h
				notify()
			}
			sample()
			if !pendingAtLimit() {
				return false
			}
			h := height()
			time.Sleep(10 * time.Millisecond)
			return pendingAtLimit() && height() == h
		})
		if !stuck {
			r.Inconclusive(fmt.Sprintf("loop case %d: production did not come to rest at the limit during the outage", c.ID))
			return
		}
		// one more request for a block arrives during the outage and is declined (nothing can be accepted now)
		declined := false
		h0 := height()
		for try := 0; try < 4 && !declined; try++ {
			h0 = height()
			reaped := cseq.n.Load()
			notify()
			if c.Reaper {
				// the transaction is reaped (handed to the sequencer) while production is paused
				if !waitUntil(10*time.Second, func() bool { return cseq.n.Load() > reaped }) {
					r.Inconclusive(fmt.Sprintf("loop case %d: the reaper did not pick up a transaction within 10 s", c.ID))
					return
				}
				r.Hit("loop-reaped-during-pause")
			}
			time.Sleep(20 * time.Millisecond)
			sample()
			declined = height() == h0
		}
		r.Hit("loop-declines-at-limit")
		if !declined {
			viol = append(viol, fmt.Sprintf("cycle %d: with the DA layer refusing everything and %d blocks waiting (limit %d) the production loop keeps producing (height %d)", cyc, maxPending, c.Limit, height()))
			break
		}
		h0 = height()
		// what is owed after the outage: in lazy mode without further notifications exactly the one block that was asked
		// for and declined; otherwise production goes on (limit+1 blocks show that the throttle keeps releasing)
		need := c.Limit + 1
		if c.Lazy && !c.NotifyAfterHeal {
			need = 1
		}
		da.SetDefaultSubmit("accept")
		resumed := waitUntil(liveWait, func() bool {
			if c.NotifyAfterHeal {
				notify()
			}
			sample()
			return height() >= h0+need
		})
		r.Hit("loop-resumes")
		if !resumed && loops.Exited("aggregation") {
			select {
			case err := <-loops.ErrCh:
				viol = append(viol, fmt.Sprintf("cycle %d: the production loop terminated: %v", cyc, err))
			default:
				viol = append(viol, fmt.Sprintf("cycle %d: the production loop returned", cyc))
			}
		} else if !resumed {
			_, _, ph, pd := n.M.VerifWatermarks()
			via := ""
			if c.Reaper {
				via = "; the transactions came through the node's own reaper, the last one while production was paused by the limit with no declined attempt outstanding"
			}
			viol = append(viol, fmt.Sprintf("cycle %d: the DA layer accepts again; %v later the node's own production loop (lazy=%v, transactions notified during the outage are waiting, further notifications=%v) has raised the height only from %d to %d (limit %d; the node counts %d pending headers, %d pending data items; idle interval 1 h%s)",
				cyc, liveWait, c.Lazy, c.NotifyAfterHeal, h0, height(), c.Limit, ph, pd, via))
		}
	}
	r.Hit("loop-bound")
	if maxPending > c.Limit+1 {
		viol = append(viol, fmt.Sprintf("the node counted %d pending blocks with a limit of %d", maxPending, c.Limit))
	}
	if len(viol) > 0 {
		id := "C08-lazy-declined-notification-forgotten"
		if c.Lazy && !c.NotifyAfterHeal && r.IsKnown(id) {
			r.Finding(id, "throttle-loop", viol[0], map[string]any{"case": c})
		} else {
			r.Violation("throttle-loop", viol[0], map[string]any{"case": c})
		}
	}
	r.Eval(c.key(), true, c)
}

// genLoopReaper: lazy mode, transactions through the real Reaper, nothing arrives after the outage.
func genLoopReaper(rng *rand.Rand, id int) LoopCase {
	return LoopCase{ID: id, Limit: []uint64{1, 2, 3, 5}[rng.Intn(4)], Lazy: true, Reaper: true, Pattern: []string{"x", "xe", "xxe"}[rng.Intn(3)], Cycles: 1 + rng.Intn(3)}
}

func genLoop(rng *rand.Rand, id int) LoopCase {
	c := LoopCase{ID: id, Limit: []uint64{1, 2, 3, 5}[rng.Intn(4)], Lazy: rng.Intn(2) == 0, Pattern: []string{"x", "e", "xe", "xeee"}[rng.Intn(4)], Cycles: 1 + rng.Intn(3)}
	c.NotifyAfterHeal = !c.Lazy || rng.Intn(2) == 0
	return c
}
