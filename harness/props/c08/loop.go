package c08

import (
	"context"
	"fmt"
	"math/rand"
	"time"

	"verifharness/vk"
	"verifharness/world"
)

// LoopCase is one run in which the node's own production loop (normal or lazy mode) runs against the limit, together
// with its two submission loops.
type LoopCase struct {
	ID      int    `json:"id"`
	Limit   uint64 `json:"limit"`
	Lazy    bool   `json:"lazy"`
	Pattern string `json:"block_pattern"`
	Cycles  int    `json:"outage_cycles"`
	// NotifyAfterHeal: lazy mode only: false = the only notification of new transactions arrives during the outage (the
	// transactions wait in the mempool; nothing new arrives afterwards)
	NotifyAfterHeal bool `json:"notifications_continue_after_the_outage"`
}

func (c LoopCase) key() string {
	return fmt.Sprintf("loop l%d lazy=%v %s c%d n%v", c.Limit, c.Lazy, c.Pattern, c.Cycles, c.NotifyAfterHeal)
}

// runLoop: AggregationLoop, HeaderSubmissionLoop and DataSubmissionLoop of one aggregator run for real (block time 2 ms,
// DA block time 1 ms; lazy mode with an idle interval of one hour, so that only notifications produce blocks). Each cycle:
// the DA layer refuses everything until production has stopped at the limit, then accepts again. Oracle: the node's own
// pending counts never exceed limit+1; once the DA layer accepts again the chain must grow (by limit+1 blocks; in lazy mode without
// further notifications by the one block that was asked for and declined) within liveWait (15 s = 7 500 block intervals) - the loop itself has to come back, nobody calls it.
func runLoop(r *vk.Run, c LoopCase) {
	ctx := context.Background()
	seq, da := world.NewSeqDouble(), world.NewDADouble()
	genesis := time.Now().Add(-time.Hour)
	t := genesis
	seq.Auto = func(n int) *world.SeqResp {
		t = t.Add(time.Second)
		if c.Pattern[n%len(c.Pattern)] == 'e' {
			return &world.SeqResp{Kind: world.SeqEmpty, Time: t}
		}
		return &world.SeqResp{Kind: world.SeqTxs, Time: t, Txs: [][]byte{[]byte(fmt.Sprintf("c08loop-%d-%d", c.ID, n))}}
	}
	n, err := world.NewNode(ctx, world.NodeOpts{Aggregator: true, InitialHeight: 1, MaxPending: c.Limit, Lazy: c.Lazy,
		BlockTime: 2 * time.Millisecond, LazyInterval: time.Hour, DABlockTime: time.Millisecond, GenesisTime: genesis},
		world.NewKeys("proposer"), world.NewMemDS(world.NewImage()), world.NewExecDouble(), seq, da, nil)
	if err != nil {
		r.Violation("startup", err.Error(), c)
		return
	}
	loops := world.StartLoops(ctx, n, "aggregation", "headerSubmit", "dataSubmit")
	defer func() { _ = loops.Stop() }()
	height := func() uint64 { h, _ := n.Store.Height(ctx); return h }
	notify := func() {
		if c.Lazy {
			n.M.NotifyNewTransactions()
		}
	}
	waitUntil := func(d time.Duration, cond func() bool) bool {
		deadline := time.Now().Add(d)
		for time.Now().Before(deadline) {
			if cond() {
				return true
			}
			time.Sleep(500 * time.Microsecond)
		}
		return cond()
	}
	var viol []string
	maxPending := uint64(0)
	sample := func() {
		_, _, ph, pd := n.M.VerifWatermarks()
		if ph < 1<<40 && ph > maxPending {
			maxPending = ph
		}
		if pd < 1<<40 && pd > maxPending {
			maxPending = pd
		}
	}
	for cyc := 0; cyc < c.Cycles && len(viol) == 0; cyc++ {
		da.SetDefaultSubmit("error")
		time.Sleep(5 * time.Millisecond) // submissions that were in flight when the outage began have ended
		pendingAtLimit := func() bool {
			_, _, ph, pd := n.M.VerifWatermarks()
			return ph >= c.Limit || pd >= c.Limit
		}
		// production runs into the limit (in lazy mode every block needs a notification) and stays there
		stuck := waitUntil(10*time.Second, func() bool {
			notify()
			sample()
			if !pendingAtLimit() {
				return false
			}
			h := height()
			time.Sleep(10 * time.Millisecond)
			return pendingAtLimit() && height() == h
		})
		if !stuck {
			r.Inconclusive(fmt.Sprintf("loop case %d: production did not come to rest at the limit during the outage", c.ID))
			return
		}
		// one more request for a block arrives during the outage and is declined (nothing can be accepted now)
		declined := false
		h0 := height()
		for try := 0; try < 4 && !declined; try++ {
			h0 = height()
			notify()
			time.Sleep(20 * time.Millisecond)
			sample()
			declined = height() == h0
		}
		r.Hit("loop-declines-at-limit")
		if !declined {
			viol = append(viol, fmt.Sprintf("cycle %d: with the DA layer refusing everything and %d blocks waiting (limit %d) the production loop keeps producing (height %d)", cyc, maxPending, c.Limit, height()))
			break
		}
		h0 = height()
		// what is owed after the outage: in lazy mode without further notifications exactly the one block that was asked
		// for and declined; otherwise production goes on (limit+1 blocks show that the throttle keeps releasing)
		need := c.Limit + 1
		if c.Lazy && !c.NotifyAfterHeal {
			need = 1
		}
		da.SetDefaultSubmit("accept")
		resumed := waitUntil(liveWait, func() bool {
			if c.NotifyAfterHeal {
				notify()
			}
			sample()
			return height() >= h0+need
		})
		r.Hit("loop-resumes")
		if !resumed && loops.Exited("aggregation") {
			select {
			case err := <-loops.ErrCh:
				viol = append(viol, fmt.Sprintf("cycle %d: the production loop terminated: %v", cyc, err))
			default:
				viol = append(viol, fmt.Sprintf("cycle %d: the production loop returned", cyc))
			}
		} else if !resumed {
			_, _, ph, pd := n.M.VerifWatermarks()
			viol = append(viol, fmt.Sprintf("cycle %d: the DA layer accepts again; %v later the node's own production loop (lazy=%v, transactions notified during the outage are waiting, further notifications=%v) has raised the height only from %d to %d (limit %d; the node counts %d pending headers, %d pending data items)",
				cyc, liveWait, c.Lazy, c.NotifyAfterHeal, h0, height(), c.Limit, ph, pd))
		}
	}
	r.Hit("loop-bound")
	if maxPending > c.Limit+1 {
		viol = append(viol, fmt.Sprintf("the node counted %d pending blocks with a limit of %d", maxPending, c.Limit))
	}
	if len(viol) > 0 {
		id := "C08-lazy-declined-notification-forgotten"
		if c.Lazy && !c.NotifyAfterHeal && r.IsKnown(id) {
			r.Finding(id, "throttle-loop", viol[0], map[string]any{"case": c})
		} else {
			r.Violation("throttle-loop", viol[0], map[string]any{"case": c})
		}
	}
	r.Eval(c.key(), true, c)
}

func genLoop(rng *rand.Rand, id int) LoopCase {
	c := LoopCase{ID: id, Limit: []uint64{1, 2, 3, 5}[rng.Intn(4)], Lazy: rng.Intn(2) == 0, Pattern: []string{"x", "e", "xe", "xeee"}[rng.Intn(4)], Cycles: 1 + rng.Intn(3)}
	c.NotifyAfterHeal = !c.Lazy || rng.Intn(2) == 0
	return c
}
