// Package c05 decides C05: a full node recovers from a crash at any point of block application.
package c05

import (
	"context"
	"fmt"
	"math/rand"
	"strings"
	"sync"

	"verifharness/monitors"
	"verifharness/vk"
	"verifharness/world"
)

// Level is the verification level claimed for this property.
const Level = "fault_enumeration"

// Case is one enumerated crash scenario.
type Case struct {
	Shape     string `json:"chain_shape"`
	Mode      string `json:"delivery"` // inorder | cascade
	Block     int    `json:"crash_while_applying_block_index"`
	K         []int  `json:"crash_after_writes"`
	Redeliv   string `json:"redelivery"` // rest | all | shuffled | p2p (the P2P stores held everything before the crash already; only a tick follows)
	OrderSeed int64  `json:"order_seed"`
}

func (c Case) key() string {
	return fmt.Sprintf("%s %s b%d %v %s %d", c.Shape, c.Mode, c.Block, c.K, c.Redeliv, c.OrderSeed)
}

func buildSpec(shape, tag string) world.ChainSpec {
	// one chain in three starts above height 1 (a full node of a chain whose genesis names a later initial height)
	spec := world.ChainSpec{Initial: 1}
	if t := 0; len(tag) > 0 {
		for _, ch := range tag {
			t = t*31 + int(ch)
		}
		if t%3 == 0 {
			spec.Initial = 5
		}
	}
	for i, c := range shape {
		if c == 'e' {
			spec.Blocks = append(spec.Blocks, nil)
			continue
		}
		spec.Blocks = append(spec.Blocks, [][]byte{[]byte(fmt.Sprintf("%s-b%d-t0", tag, i)), []byte(fmt.Sprintf("%s-b%d-t1", tag, i))})
	}
	return spec
}

// deliver sends both parts of block index i through the event channels and returns the barrier error.
func deliver(f *world.FN, i int, headerFirst bool) error {
	acts := []world.Action{{Kind: "ch-h", I: i}}
	if len(f.P.Txs[i]) > 0 {
		if headerFirst {
			acts = append(acts, world.Action{Kind: "ch-d", I: i})
		} else {
			acts = append([]world.Action{{Kind: "ch-d", I: i}}, acts...)
		}
	}
	for _, a := range acts {
		if err := f.Do(a); err != nil {
			return err
		}
	}
	return nil
}

// runCase returns, per stage, whether the crash point was reached.
func runCase(r *vk.Run, p *world.Produced, c Case) []bool {
	ctx := context.Background()
	crashed := make([]bool, len(c.K))
	f, err := world.NewFN(ctx, p, "")
	if err != nil {
		r.Violation("startup", err.Error(), c)
		return nil
	}
	defer func() { f.L.Stop() }()
	wit := func() any {
		var logs [][]string
		for _, l := range f.Logs {
			logs = append(logs, world.FormatLog(l))
		}
		logs = append(logs, world.FormatLog(f.N.DS.Log()))
		return map[string]any{"case": c, "write_logs_per_process": logs}
	}
	fail := func(clause, detail string) {
		if strings.Contains(detail, world.ErrWatchdog.Error()) {
			r.Inconclusive("watchdog: " + detail)
			return
		}
		id := "C05-state-before-block"
		if r.IsKnown(id) && (strings.Contains(detail, "block-present") || strings.Contains(detail, "not retrievable")) {
			r.Finding(id, clause, detail, wit())
			return
		}
		r.Violation(clause, detail, wit())
	}
	n := len(p.Heights)
	if c.Redeliv == "p2p" {
		for _, k := range []string{"p2p-h+", "p2p-d+"} {
			if err := f.Do(world.Action{Kind: k, I: n - 1}); err != nil {
				fail("delivery", "filling the P2P stores failed: "+err.Error())
				return nil
			}
		}
	}
	// stage 0: deliver up to the block under test, crash while applying it
	next := 0 // next block index to deliver in order
	stageDeliver := func(stage int) bool {
		// returns false when the run must stop (violation)
		target := c.Block + stage
		if target >= n {
			target = n - 1
		}
		if c.Mode == "cascade" && stage == 0 {
			// everything except the header of block `next` is delivered first: nothing can be applied
			for i := n - 1; i > next; i-- {
				if err := deliver(f, i, i%2 == 0); err != nil {
					fail("delivery", "clean delivery failed: "+err.Error())
					return false
				}
			}
			if len(p.Txs[next]) > 0 {
				if err := f.Do(world.Action{Kind: "ch-d", I: next}); err != nil {
					fail("delivery", "clean delivery failed: "+err.Error())
					return false
				}
			}
			f.N.DS.CrashAfter(c.K[stage])
			err := f.Do(world.Action{Kind: "ch-h", I: next})
			crashed[stage] = f.N.DS.Crashed()
			if err != nil && !crashed[stage] {
				fail("delivery", "delivery failed without a crash: "+err.Error())
				return false
			}
			return true
		}
		for ; next < target; next++ {
			if err := deliver(f, next, next%2 == 0); err != nil {
				fail("delivery", "clean delivery failed: "+err.Error())
				return false
			}
		}
		f.N.DS.CrashAfter(c.K[stage])
		err := deliver(f, target, true)
		crashed[stage] = f.N.DS.Crashed()
		if err != nil && !crashed[stage] {
			fail("delivery", "delivery failed without a crash: "+err.Error())
			return false
		}
		return true
	}
	for stage := range c.K {
		if !stageDeliver(stage) {
			return crashed
		}
		// the process dies here (or, if the crash point was not reached, is killed right after the step)
		if err := f.Restart(false); err != nil {
			if err == world.ErrWatchdog {
				r.Inconclusive("watchdog while stopping loops")
				return crashed
			}
			fail("restart", "full node cannot start on the image left by the crash: "+err.Error())
			return crashed
		}
		r.Hit("restart-ok")
		// after a crash the in-memory caches are gone: what was delivered but not applied must come again
		h, _ := f.N.Store.Height(ctx)
		for i := range f.GotH {
			if p.Heights[i] > h && c.Redeliv != "p2p" { // (what sits in the P2P stores survives the crash)
				f.GotH[i], f.GotD[i] = false, false
			}
		}
		next = 0
		if h >= p.Spec.Initial {
			next = p.Idx(h) + 1
		}
		// invariant right after restart
		if _, probs := monitors.CheckFullNode(ctx, f, 0, false, r.Hit); len(probs) > 0 {
			var s []string
			for _, pr := range probs {
				s = append(s, pr.String())
			}
			fail("after-restart", "right after restart: "+strings.Join(s, " ;; "))
			return crashed
		}
	}
	// redelivery of the remaining parts (or of everything) in a generated order, half through DA
	rng := rand.New(rand.NewSource(c.OrderSeed))
	var acts []world.Action
	from := 0
	if c.Redeliv == "rest" {
		from = next
	}
	for i := from; i < n && c.Redeliv != "p2p"; i++ {
		acts = append(acts, world.Action{Kind: "ch-h", I: i})
		if len(p.Txs[i]) > 0 {
			acts = append(acts, world.Action{Kind: "ch-d", I: i})
		}
	}
	if c.Redeliv == "p2p" {
		// nothing is delivered again: the node's P2P stores (which survive the crash) have held the whole chain since
		// before the crash; the store loops of the restarted node must pick up from what the block store has
		acts = append(acts, world.Action{Kind: "p2p-tick"})
		r.Hit("resync-from-p2p-stores")
	}
	if c.Redeliv == "shuffled" {
		rng.Shuffle(len(acts), func(a, b int) { acts[a], acts[b] = acts[b], acts[a] })
	}
	var prev uint64
	for _, a := range acts {
		if err := f.Do(a); err != nil {
			if err == world.ErrWatchdog {
				r.Inconclusive("watchdog during redelivery")
				return crashed
			}
			fail("resync", fmt.Sprintf("after restart, delivering %s: %v", a, err))
			return crashed
		}
		h, probs := monitors.CheckFullNode(ctx, f, prev, false, r.Hit)
		prev = h
		if len(probs) > 0 {
			fail(probs[0].Clause, fmt.Sprintf("after restart, after %s: %s", a, probs[0]))
			return crashed
		}
	}
	// everything has been delivered again: the node must be at the tip before the DA layer offers a second way
	if _, probs := monitors.CheckFullNode(ctx, f, prev, true, r.Hit); len(probs) > 0 {
		fail(probs[0].Clause, fmt.Sprintf("after restart and complete redelivery (%s): %s", c.Redeliv, probs[0]))
		return crashed
	}
	// the DA layer holds the complete chain as well
	var items []world.Item
	for i := 0; i < n; i++ {
		items = append(items, world.Item{I: i})
		if len(p.Txs[i]) > 0 {
			items = append(items, world.Item{D: true, I: i})
		}
	}
	for len(items) > 0 {
		k := 3
		if k > len(items) {
			k = len(items)
		}
		if err := f.Do(world.Action{Kind: "da", DA: items[:k]}); err != nil {
			fail("resync", "DA delivery after restart: "+err.Error())
			return crashed
		}
		items = items[k:]
	}
	if err := f.Settle(); err != nil {
		if err == world.ErrWatchdog {
			r.Inconclusive("watchdog at settle")
			return crashed
		}
		fail("resync", "settle: "+err.Error())
		return crashed
	}
	_, probs := monitors.CheckFullNode(ctx, f, prev, true, r.Hit)
	var viol []string
	for _, pr := range probs {
		viol = append(viol, pr.String())
	}
	// (the DA-included height after recovery is C07's business: observed here, not judged)
	if d := f.N.M.GetDAIncludedHeight(); d == p.Tip() {
		r.Count("da_included_reached_tip_after_recovery", 1)
	} else {
		r.Count("da_included_below_tip_after_recovery", 1)
	}
	_ = f.Stop()
	for _, pr := range monitors.CheckHeightWritesAcross(f.Logs, r.Hit) {
		viol = append(viol, pr.String())
	}
	if len(viol) > 0 {
		fail("after-recovery", strings.Join(viol, " ;; "))
	}
	return crashed
}

// Run is the check entry point.
func Run(r *vk.Run) {
	world.Silence()
	r.Rule = "exhaustive enumeration: chain shape x delivery mode (in order | everything cached, then the missing first header applies all blocks in one cascade) x block being applied x crash after durable write k = 0..W (W found by running until the step completes) x second crash k2 during re-application after the restart (depth 2) x redelivery (remaining parts in order | everything again | everything shuffled), then the complete chain placed on DA; W2 after every event, DA-included height must reach the tip. non-trivial = a crash point strictly inside an application; distinct by (shape, mode, block, k, k2, redelivery). Second family, full node fed by the DA layer alone (P2P stores empty, nothing injected): chain shape x DA layout (headers ahead of data by 1 | 2 | all blocks, data ahead of headers likewise, one block per DA height, everything in reverse, seeded random placements) x DA height being scanned x crash after durable write k (writes of the sync and the inclusion loop) x on short chains a second crash k2 of the restarted process; after the restart the rest of the layout appears on the DA layer, the scan runs to its end and the node must be at the proposer's tip with the proposer's blocks; distinct by (shape, layout, DA height, k, k2)"
	r.Assume("MemDS double: Put/Batch.Commit atomic and durable once returned; a crash loses in-memory caches (no cache files written)")
	r.Assume("the P2P/DA layers still have the data after the crash (redelivery is possible)")
	r.Assume("DA-only family: every DA height stays readable for ever and in the same order; the node is free to scan from wherever it likes after a restart")
	ctx := context.Background()
	keys := world.NewKeys("proposer")
	shapes := []string{"xx", "ex", "xe", "xxx", "eex", "xee", "xexx"}
	if !r.Quick() {
		shapes = []string{"xx", "ex", "xe", "xxx", "eex", "xee", "xexx", "exxe", "xxexx", "eexex", "xxxxxx", "exexex"}
	}
	type tuple struct {
		p     *world.Produced
		shape string
		mode  string
		block int
		red   string
	}
	var tuples []tuple
	for si, shape := range shapes {
		p, err := world.ProduceChain(ctx, buildSpec(shape, fmt.Sprintf("s%d", si)), keys)
		if err != nil {
			r.Inconclusive("the aggregator producing the reference chain failed (not this property's business): " + err.Error())
			return
		}
		for _, mode := range []string{"inorder", "cascade"} {
			blocks := len(p.Heights)
			if mode == "cascade" {
				blocks = 1
			}
			for b := 0; b < blocks; b++ {
				for _, red := range []string{"rest", "all", "shuffled", "p2p"} {
					tuples = append(tuples, tuple{p, shape, mode, b, red})
				}
			}
		}
	}
	depth := 2
	if !r.Quick() {
		depth = 3
	}
	var enum func(p *world.Produced, base Case, d int) []bool
	enum = func(p *world.Produced, base Case, d int) []bool {
		var last []bool
		for k := 0; k < 80; k++ {
			c := base
			c.K = append(append([]int{}, base.K...), k)
			var crashed []bool
			if d == depth-1 {
				c.OrderSeed = int64(len(c.K)*1000+k) + r.SeedV*7919
				crashed = runCase(r, p, c)
				inside := false
				for _, b := range crashed {
					inside = inside || b
				}
				r.Eval(c.key(), inside, c)
			} else {
				crashed = enum(p, c, d+1)
			}
			last = crashed
			if crashed == nil || !crashed[d] {
				break
			}
		}
		return last
	}
	// full node fed by the DA layer alone: chain shape x DA layout (headers ahead of data by 1, 2 or all blocks, data ahead
	// of headers likewise, one block per DA height, everything in reverse, generated placements) x DA height being scanned
	// x crash after durable write k x (on the short chains) second crash k2 of the restarted process
	type daJob struct {
		p     *world.Produced
		shape string
		l     Layout
		step  int
		deep  bool
	}
	var daJobs []daJob
	daShapes := []string{"x", "xx", "ex", "xe", "xxx", "xex", "exx"}
	nRandom := 2
	if !r.Quick() {
		daShapes = append(daShapes, "xxxx", "xeex", "exxe", "xxexx")
		nRandom = 6
	}
	for si, shape := range daShapes {
		p, err := world.ProduceChain(ctx, buildSpec(shape, fmt.Sprintf("d%d", si)), keys)
		if err != nil {
			r.Inconclusive("the aggregator producing the reference chain failed (not this property's business): " + err.Error())
			return
		}
		rng := rand.New(rand.NewSource(r.SeedV*1000003 + int64(si)))
		for _, l := range layouts(p, rng, nRandom) {
			for s := range l.Steps {
				daJobs = append(daJobs, daJob{p, shape, l, s, len(shape) <= 2 || !r.Quick()})
			}
		}
	}
	runDA := func(j daJob) {
		base := DACase{Shape: j.shape, Layout: j.l.Name, Steps: j.l.String(), Step: j.step}
		for k := 0; k < 200; k++ {
			c := base
			c.K = []int{k}
			crashed := runDACase(r, j.p, j.l, c)
			r.Eval(c.key(), crashed != nil && crashed[0], c)
			if crashed == nil || !crashed[0] {
				break
			}
			if !j.deep {
				continue
			}
			for k2 := 0; k2 < 400; k2++ {
				c2 := base
				c2.K = []int{k, k2}
				cr := runDACase(r, j.p, j.l, c2)
				r.Eval(c2.key(), cr != nil && len(cr) > 1 && cr[1], c2)
				if cr == nil || !cr[1] {
					break
				}
			}
		}
	}
	var wg sync.WaitGroup
	ch := make(chan func())
	for w := 0; w < 14; w++ {
		wg.Add(1)
		go func() {
			defer wg.Done()
			for job := range ch {
				job()
			}
		}()
	}
	for _, t := range tuples {
		t := t
		ch <- func() {
			c := Case{Shape: t.shape, Mode: t.mode, Block: t.block, Redeliv: t.red}
			r.Guard(c, func() { enum(t.p, c, 0) })
		}
	}
	for _, j := range daJobs {
		j := j
		ch <- func() {
			r.Guard(DACase{Shape: j.shape, Layout: j.l.Name, Steps: j.l.String(), Step: j.step}, func() { runDA(j) })
		}
	}
	close(ch)
	wg.Wait()
	r.Set("enumerated_da_layout_steps", len(daJobs))
	r.Require("resync-from-da-alone", 100)
	r.SetExhaustive(true)
	r.Set("enumerated_tuples", len(tuples))
	r.Require("restart-ok", 100)
}
