package c05

import (
	"context"
	"fmt"
	"math/rand"
	"strings"

	"verifharness/monitors"
	"verifharness/vk"
	"verifharness/world"
)

// DACase is one crash scenario of a full node that is fed by the DA layer alone: the proposer's chain is spread over DA
// heights according to a layout, the node dies at a durable write while the scan hands it DA height Step+1, and after the
// restart nothing but the DA layer (no P2P store, no event injected by the harness) can bring it to the proposer's chain.
type DACase struct {
	Shape  string `json:"chain_shape"`
	Layout string `json:"da_layout"`
	Steps  string `json:"da_heights"` // what sits at DA height 1, 2, ...
	Step   int    `json:"crash_while_scanning_da_step"`
	K      []int  `json:"crash_after_writes"` // K[0]: first process, K[1]: the restarted one (recurring crash)
}

func (c DACase) key() string {
	return fmt.Sprintf("da %s %s s%d %v", c.Shape, c.Layout, c.Step, c.K)
}

// Layout is one placement of a chain on the DA layer: Steps[s] are the blobs of DA height s+1.
type Layout struct {
	Name  string
	Steps [][]world.Item
}

func (l Layout) String() string {
	var sb strings.Builder
	for s, st := range l.Steps {
		fmt.Fprintf(&sb, "%d:[", s+1)
		for j, it := range st {
			if j > 0 {
				sb.WriteByte(' ')
			}
			if it.D {
				fmt.Fprintf(&sb, "d%d", it.I)
			} else {
				fmt.Fprintf(&sb, "h%d", it.I)
			}
		}
		sb.WriteString("] ")
	}
	return strings.TrimSpace(sb.String())
}

// layouts returns the DA placements of a chain. The header and the data of a block are separate submissions of the
// proposer (two submission loops with their own batching and retries), so either kind can run ahead of the other by any
// number of blocks, and a retried submission can land far behind its neighbours.
func layouts(p *world.Produced, rng *rand.Rand, nRandom int) []Layout {
	n := len(p.Heights)
	hasD := func(i int) bool { return i >= 0 && i < n && len(p.Txs[i]) > 0 }
	var out []Layout
	add := func(name string, steps [][]world.Item) {
		var st [][]world.Item
		for _, s := range steps {
			if len(s) > 0 {
				st = append(st, s)
			}
		}
		out = append(out, Layout{name, st})
	}
	one := func(d bool, i int) []world.Item {
		if i < 0 || i >= n || (d && !hasD(i)) {
			return nil
		}
		return []world.Item{{D: d, I: i}}
	}
	// lead(L, kind): the first L+1 items of the leading kind share one DA height; after that the lagging kind of block i
	// and the leading kind of block i+L+1 alternate, one DA height each
	lead := func(dataLeads bool, L int) [][]world.Item {
		var steps [][]world.Item
		var first []world.Item
		for i := 0; i <= L && i < n; i++ {
			first = append(first, one(dataLeads, i)...)
		}
		steps = append(steps, first)
		for i := 0; i < n; i++ {
			steps = append(steps, one(!dataLeads, i), one(dataLeads, i+L+1))
		}
		return steps
	}
	add("headers-lead-all", lead(false, n))
	add("data-lead-all", lead(true, n))
	add("headers-lead-1", lead(false, 1))
	add("data-lead-1", lead(true, 1))
	add("headers-lead-2", lead(false, 2))
	add("data-lead-2", lead(true, 2))
	// one DA height per block (the layout a proposer with an idle DA layer produces)
	var pairs, reverse [][]world.Item
	for i := 0; i < n; i++ {
		pairs = append(pairs, append(one(false, i), one(true, i)...))
	}
	add("block-per-height", pairs)
	// everything in reverse: nothing can be applied before the last DA height, which then applies the whole chain
	for i := n - 1; i >= 0; i-- {
		reverse = append(reverse, one(true, i), one(false, i))
	}
	add("reverse", reverse)
	for k := 0; k < nRandom; k++ {
		var items []world.Item
		for i := 0; i < n; i++ {
			items = append(items, one(false, i)...)
			items = append(items, one(true, i)...)
		}
		rng.Shuffle(len(items), func(a, b int) { items[a], items[b] = items[b], items[a] })
		var steps [][]world.Item
		for len(items) > 0 {
			m := 1 + rng.Intn(3)
			if m > len(items) {
				m = len(items)
			}
			steps = append(steps, items[:m])
			items = items[m:]
		}
		add(fmt.Sprintf("random-%d", k), steps)
	}
	return out
}

// runDACase returns, per stage, whether the crash point was reached (nil: the run ended early).
func runDACase(r *vk.Run, p *world.Produced, l Layout, c DACase) []bool {
	ctx := context.Background()
	crashed := make([]bool, len(c.K))
	f, err := world.NewFN(ctx, p, "")
	if err != nil {
		r.Violation("startup", err.Error(), c)
		return nil
	}
	defer func() { f.L.Stop() }()
	wit := func() any {
		var logs [][]string
		for _, lg := range f.Logs {
			logs = append(logs, world.FormatLog(lg))
		}
		logs = append(logs, world.FormatLog(f.N.DS.Log()))
		st, _ := f.N.Store.GetState(ctx)
		return map[string]any{"case": c, "write_logs_per_process": logs, "recorded_state_da_height": st.DAHeight,
			"p2p": "the P2P stores of the node stayed empty", "da_current_height": f.DA.Height()}
	}
	fail := func(clause, detail string) {
		if strings.Contains(detail, world.ErrWatchdog.Error()) {
			r.Inconclusive("watchdog: " + detail)
			return
		}
		r.Violation(clause, detail, wit())
	}
	daAct := func(s int) world.Action { return world.Action{Kind: "da", DA: l.Steps[s]} }
	placed := 0 // DA heights filled so far
	// whatever is on the DA layer can be read by the node at any time: after a restart the scan may go over it again
	markPlaced := func() {
		for s := 0; s < placed; s++ {
			for _, it := range l.Steps[s] {
				if it.D {
					f.GotD[it.I] = true
				} else {
					f.GotH[it.I] = true
				}
			}
		}
	}
	var prev uint64
	check := func(when string, final bool) bool {
		armedBefore := f.N.DS.Crashed()
		h, probs := monitors.CheckFullNode(ctx, f, prev, final, r.Hit)
		prev = h
		if len(probs) > 0 && !armedBefore && f.N.DS.Crashed() {
			// the process died while the monitor was reading its store: nothing can be judged on a dead process
			return true
		}
		if len(probs) > 0 {
			var s []string
			for _, pr := range probs {
				s = append(s, pr.String())
			}
			fail(probs[0].Clause, when+": "+strings.Join(s, " ;; "))
			return false
		}
		return true
	}
	// feed lets the DA heights from `placed` up to step `upTo` appear one at a time and the scan go over each. It returns
	// (died, ok): died = the armed crash point was reached.
	feed := func(upTo int, when string) (bool, bool) {
		for ; placed <= upTo && placed < len(l.Steps); placed++ {
			a := daAct(placed)
			err := f.Do(a)
			if err == nil {
				// the inclusion loop writes as well (its own records): let it finish, so that the durable writes caused by this
				// DA height are all counted before the next one appears
				err = f.Settle()
			}
			if f.N.DS.Crashed() {
				placed++
				return true, true
			}
			if err != nil {
				fail("delivery", fmt.Sprintf("%s, DA height %d %s: %v", when, placed+1, a, err))
				return false, false
			}
			if !check(fmt.Sprintf("%s, after DA height %d %s", when, placed+1, a), false) {
				return false, false
			}
		}
		return f.N.DS.Crashed(), true
	}
	restart := func() bool {
		if err := f.Restart(false); err != nil {
			if err == world.ErrWatchdog {
				r.Inconclusive("watchdog while stopping loops")
				return false
			}
			fail("restart", "full node cannot start on the image left by the crash: "+err.Error())
			return false
		}
		r.Hit("restart-ok")
		h, _ := f.N.Store.Height(ctx)
		for i := range f.GotH {
			if p.Heights[i] > h {
				f.GotH[i], f.GotD[i] = false, false
			}
		}
		prev = 0
		if !check("right after restart", false) {
			return false
		}
		markPlaced()
		return true
	}
	// first process: the DA heights before the one under test are scanned without incident, then the process dies after
	// K[0] further durable writes, counted from the moment DA height Step+1 appears
	if _, ok := feed(c.Step-1, "first process"); !ok {
		return nil
	}
	f.N.DS.CrashAfter(c.K[0])
	died, ok := feed(c.Step, "first process")
	if !ok {
		return nil
	}
	crashed[0] = died
	// the process dies here (if the crash point was not reached it is killed right after that DA height)
	if !restart() {
		return crashed
	}
	if len(c.K) > 1 {
		// recurring crash: the restarted process dies again while it catches up from the DA layer
		f.N.DS.CrashAfter(c.K[1])
		err := f.Do(world.Action{Kind: "scan"})
		if err == nil {
			err = f.Settle()
		}
		crashed[1] = f.N.DS.Crashed()
		if err != nil && !crashed[1] {
			fail("resync", "scan after restart: "+err.Error())
			return crashed
		}
		if !crashed[1] {
			if crashed[1], ok = feed(len(l.Steps), "second process"); !ok {
				return crashed
			}
		}
		if !restart() {
			return crashed
		}
	}
	// recovery from the DA layer alone: the rest of the chain appears on the DA layer, the node scans
	if _, ok := feed(len(l.Steps), "after restart"); !ok {
		return crashed
	}
	if err := f.Do(world.Action{Kind: "scan"}); err != nil {
		fail("resync", "scan after restart: "+err.Error())
		return crashed
	}
	if err := f.Settle(); err != nil {
		fail("resync", "settle: "+err.Error())
		return crashed
	}
	r.Hit("resync-from-da-alone")
	markPlaced()
	if !check(fmt.Sprintf("after restart the complete chain is on the DA layer (%s), the scan has reached its end and no other source exists", l), true) {
		return crashed
	}
	_ = f.Stop()
	if probs := monitors.CheckHeightWritesAcross(f.Logs, r.Hit); len(probs) > 0 {
		fail(probs[0].Clause, probs[0].String())
	}
	return crashed
}
