package c10

import (
	"fmt"
	"math/rand"
	"strings"

	coresequencer "github.com/evstack/ev-node/core/sequencer"

	"verifharness/vk"
	"verifharness/world"
)

// Restarts under a different queue bound (an operator lowers, raises or removes the bound between two runs). The
// statement's promises do not depend on the bound staying the same: what was accepted and not yet handed out survives the
// restart, comes out exactly once, in acceptance order - also when more batches are waiting than the new bound allows;
// the bound then only decides about NEW submissions: they are refused while the backlog is at or above the bound of the
// current run and accepted again once it has drained below it. Judged with a plain list: at every moment the batches handed out so
// far are a prefix of the batches accepted so far (in acceptance order), and at the end they are all of them.
func boundChangeProbes(r *vk.Run, rng *rand.Rand, n int) {
	failed := 0
	for c := 0; c < n && failed < 5; c++ {
		bounds := []int{[]int{0, 3, 5, 8}[rng.Intn(4)], []int{1, 2, 3, 0}[rng.Intn(4)], []int{0, 1, 4}[rng.Intn(3)]}
		im := world.NewImage()
		names := map[string]string{}
		var accepted, out []string
		var trace []string
		ok := true
		fail := func(clause, detail string) {
			ok = false
			failed++
			r.Violation(clause, fmt.Sprintf("restarts under changing queue bounds %v: %s; calls: %s", bounds, detail, strings.Join(trace, " ")), map[string]any{"bounds": bounds, "calls": trace, "accepted": accepted, "handed_out": out})
		}
		id := 0
		for phase := 0; phase < len(bounds) && ok; phase++ {
			p, err := startProc(im, bounds[phase])
			if err != nil {
				fail("restart", "a sequencer over the same datastore does not start: "+err.Error())
				break
			}
			trace = append(trace, fmt.Sprintf("start(bound=%d)", bounds[phase]))
			steps := 4 + rng.Intn(10)
			for s := 0; s < steps && ok; s++ {
				if rng.Intn(3) > 0 {
					id++
					name := fmt.Sprintf("q%d-%d", c, id)
					names[contentKey(txsOf(name))] = name
					// the bounded-FIFO model under the bound of THIS run: a submission is refused while as many batches as
					// the bound, or more (a backlog accepted under an earlier, higher bound), are waiting; otherwise it is accepted
					waiting, bound := len(accepted)-len(out), bounds[phase]
					full := bound > 0 && waiting >= bound
					o := p.submit(chainID, &coresequencer.Batch{Transactions: txsOf(name)})
					trace = append(trace, "sub("+name+")="+o.Kind)
					if full {
						r.Hit("bound-change-submission-at-or-above-bound")
						if waiting > bound {
							r.Hit("bound-change-submission-with-backlog-above-bound")
						}
					}
					switch {
					case o.Kind == "ok" && full:
						fail("bound", fmt.Sprintf("submission of %s was accepted although %d accepted batches have not been handed out yet and the bound of this run is %d", name, waiting, bound))
					case o.Kind != "ok" && !full:
						fail("admission", fmt.Sprintf("submission of %s was refused (%s) although only %d accepted batches are waiting and the bound of this run is %d", name, o.Err, waiting, bound))
					}
					if o.Kind == "ok" {
						accepted = append(accepted, name)
					}
					continue
				}
				o := p.next(names)
				trace = append(trace, "next="+o.String())
				switch o.Kind {
				case "batch":
					out = append(out, o.Batch)
					r.Hit("bound-change-fifo")
					if len(out) > len(accepted) || accepted[len(out)-1] != o.Batch {
						fail("fifo-model", fmt.Sprintf("batch %s was handed out; by acceptance order the next one is %s", o.Batch, nextOf(accepted, len(out)-1)))
					}
				case "empty":
					if len(out) < len(accepted) {
						fail("delivery", fmt.Sprintf("GetNextBatch returned nothing although %d accepted batches have not been handed out (next: %s)", len(accepted)-len(out), accepted[len(out)]))
					}
				default:
					fail("fifo-model", "GetNextBatch failed: "+o.Err)
				}
			}
			p.ds.CrashNow()
		}
		if !ok {
			continue
		}
		// final drain under yet another bound
		p, err := startProc(im, 0)
		if err != nil {
			fail("restart", "a sequencer over the same datastore does not start: "+err.Error())
			continue
		}
		for len(out) < len(accepted)+1 {
			o := p.next(names)
			if o.Kind != "batch" {
				break
			}
			out = append(out, o.Batch)
		}
		r.Hit("bound-change-exactly-once")
		if strings.Join(out, ",") != strings.Join(accepted, ",") {
			fail("conservation", fmt.Sprintf("accepted in this order: %v; handed out: %v", accepted, out))
		}
		r.Eval(fmt.Sprintf("bound-change|%v|%d", bounds, c), true, nil)
	}
}

func nextOf(accepted []string, i int) string {
	if i < len(accepted) {
		return accepted[i]
	}
	return "(none: everything accepted was handed out already)"
}
