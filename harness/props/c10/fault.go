package c10

import (
	"fmt"
	"strings"

	coresequencer "github.com/evstack/ev-node/core/sequencer"

	"verifharness/vk"
	"verifharness/world"
)

// Write faults the process survives (a datastore write that returns an error while the process
// goes on) are outside the property's quantifier, which names crashes. What the sequencer does
// with them is observed and put into the evidence, never judged.

// crashTemplates are small directed histories that put a process death at every durable write of
// one operation into a few fixed contexts (so that an operation that makes two or three writes is
// cut between them whatever the random generator does).
func crashTemplates() []History {
	var out []History
	id := -1000
	u := 0
	sub := func() Op { u++; return Op{Kind: "sub", Batch: fmt.Sprintf("u%d", 900000+u)} }
	nx := Op{Kind: "next"}
	prefixes := [][]string{{}, {"s"}, {"s", "s"}, {"s", "n"}, {"s", "s", "n"}}
	suffixes := [][]string{{"s"}, {"n"}, {"s", "n"}, {"s", "n", "n"}, {"n", "s", "n"}, {"s", "n", "n", "n"}, {"s", "s", "n", "n"}}
	build := func(spec []string) []Op {
		var ops []Op
		for _, k := range spec {
			if k == "s" {
				ops = append(ops, sub())
			} else {
				ops = append(ops, nx)
			}
		}
		return ops
	}
	for _, bound := range []int{0, 2} {
		for _, pre := range prefixes {
			for _, cutKind := range []string{"s", "n"} {
				for k := 1; k <= maxCrashK; k++ {
					for _, suf := range suffixes {
						for _, tail := range []bool{false, true} {
							ops := build(pre)
							cut := build([]string{cutKind})[0]
							cut.Crash = k
							ops = append(ops, cut)
							ops = append(ops, build(suf)...)
							if tail {
								ops = append(ops, Op{Kind: "restart"})
							}
							out = append(out, History{ID: id, Region: "crash-template", Bound: bound, Ops: ops})
							id--
						}
					}
				}
			}
		}
	}
	return out
}

func drainLive(p *proc, names map[string]string) []string {
	var out []string
	for i := 0; i < 64; i++ {
		o := p.next(names)
		if o.Kind != "batch" {
			break
		}
		out = append(out, o.Batch)
	}
	return out
}

// writeFaultProbes observes what the sequencer does when one datastore write fails and the
// process survives.
func writeFaultProbes(r *vk.Run) {
	type obs struct {
		Scenario string   `json:"scenario"`
		Observed string   `json:"observed"`
		Outcome  string   `json:"outcome"`
		After    []string `json:"handed_out_after_restart"`
	}
	var samples []obs
	seen := map[string]bool{}
	note := func(o obs) {
		r.Count("write_fault:"+o.Scenario+":"+o.Outcome, 1)
		if k := o.Scenario + o.Outcome; !seen[k] {
			seen[k] = true
			samples = append(samples, o)
		}
	}
	for qlen := 1; qlen <= 3; qlen++ {
		for _, bound := range []int{0, 5} {
			// (a) the durable write of a GetNextBatch fails
			names := map[string]string{}
			var ids []string
			for i := 0; i < qlen; i++ {
				id := fmt.Sprintf("u%d", 800000+i)
				ids = append(ids, id)
				names[contentKey(txsOf(id))] = id
			}
			im := world.NewImage()
			p, err := startProc(im, bound)
			if err != nil {
				r.Inconclusive("write-fault probe: " + err.Error())
				return
			}
			for _, id := range ids {
				p.submit(chainID, &coresequencer.Batch{Transactions: txsOf(id)})
			}
			p.ds.FailNextWrites(1)
			var o Obs
			quietly(func() { o = p.next(names) })
			p.ds.FailNextWrites(0)
			after, _ := drainOf(im, bound, names)
			sc := fmt.Sprintf("next-with-failing-write(queue=%d)", qlen)
			back := len(after) > 0 && after[0] == ids[0]
			switch {
			case o.Kind == "batch" && o.Batch == ids[0] && back:
				note(obs{sc, o.String(), "batch-handed-out-and-handed-out-again-after-restart", after})
			case o.Kind == "batch" && o.Batch == ids[0]:
				note(obs{sc, o.String(), "batch-handed-out-once", after})
			case o.Kind == "err" && back:
				note(obs{sc, o.String(), "error-reported-batch-still-queued", after})
			case o.Kind == "err":
				note(obs{sc, o.String(), "error-reported-batch-gone", after})
			default:
				note(obs{sc, o.String(), "other", after})
			}
			r.Hit("write-fault-observed")

			// (b) the durable write of a submission fails
			im2 := world.NewImage()
			p2, err := startProc(im2, bound)
			if err != nil {
				r.Inconclusive("write-fault probe: " + err.Error())
				return
			}
			for _, id := range ids[:qlen-1] {
				p2.submit(chainID, &coresequencer.Batch{Transactions: txsOf(id)})
			}
			last := ids[qlen-1]
			p2.ds.FailNextWrites(1)
			o2 := p2.submit(chainID, &coresequencer.Batch{Transactions: txsOf(last)})
			p2.ds.FailNextWrites(0)
			after2, _ := drainOf(im2, bound, names)
			live := drainLive(p2, names)
			inAfter := strings.Contains(","+strings.Join(after2, ",")+",", ","+last+",")
			inLive := strings.Contains(","+strings.Join(live, ",")+",", ","+last+",")
			sc2 := fmt.Sprintf("submit-with-failing-write(queue=%d)", qlen-1)
			note(obs{sc2, o2.Kind, fmt.Sprintf("answer=%s handed-out-by-this-process=%v handed-out-after-restart=%v", o2.Kind, inLive, inAfter), after2})
			r.Hit("write-fault-observed")
		}
	}
	r.Set("write_fault_observations", samples)
}
