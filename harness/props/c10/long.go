package c10

import (
	"fmt"
	"math/rand"
)

// Long histories. The generated histories of seq.go have 20-80 operations, so whatever the queue
// uses to remember the acceptance order across a restart (today a counter that continues from the
// highest pending record and starts over only when a process starts on an empty queue) never gets
// far from its start value. A long history keeps at least one batch pending at every restart and
// crash, so that one "queue life" spans the whole history: 150-450 accepted batches, a few
// histories with more than 12300 and, in the thorough tier, some with more than 66000 (longLengths),
// with clean restarts and crashes at seeded points while several batches are pending. The
// operations are generated while the history is executed (judgeGen): the generator steers by the
// model's set of possible states, which the observations keep small. The oracle is the same plain bounded FIFO / exactly-once model at
// the sequencer's interface (no predicted deviation is forked: tolerate=false in Judge); only the
// workload differs.
//
// Profiles: the number of pending batches is steered into a window (2-4 | 2-10 | 8-48, cut to the
// bound + 1 so that a bounded queue is driven into refusals), a restart-or-crash happens every
// 3 | 8 | 20 | 50 operations on average (half of them crashes at the 1st/2nd/3rd durable write of a
// submit / next). All batches are unique, so every handed-out batch identifies its submission.

const regionLong = "long"

func minLen(S []*mstate) int {
	if len(S) == 0 {
		return 0
	}
	m := len(S[0].q)
	for _, s := range S[1:] {
		if len(s.q) < m {
			m = len(s.q)
		}
	}
	return m
}

// longGen produces the operations of one long history. It is asked for the next operation with
// the model's current set of possible states (judgeGen), i.e. it steers by what the executed
// history has shown so far; the history it produced is an ordinary History afterwards.
type longGen struct {
	rng          *rand.Rand
	id, bound    int
	lo, hi       int // window for the number of pending batches
	restartEvery int
	uniq         int
}

func newLongGen(rng *rand.Rand, id int) *longGen {
	bounds := []int{0, 0, 4, 8, 64}
	g := &longGen{rng: rng, id: id, bound: bounds[rng.Intn(len(bounds))]}
	switch rng.Intn(3) {
	case 0:
		g.lo, g.hi = 2, 4
	case 1:
		g.lo, g.hi = 2, 10
	default:
		g.lo, g.hi = 8, 48
	}
	if g.bound > 0 && g.hi > g.bound {
		// one above the bound: the queue is driven into refusals
		g.hi = g.bound + 1
		if g.lo >= g.bound {
			g.lo = g.bound / 2
		}
	}
	g.restartEvery = []int{3, 8, 20, 50}[rng.Intn(4)]
	return g
}

func (g *longGen) sub() Op {
	g.uniq++
	return Op{Kind: "sub", Batch: fmt.Sprintf("u%d", g.id*1000000+g.uniq)}
}

func (g *longGen) next(S []*mstate) Op {
	rng := g.rng
	var op Op
	wantSub := rng.Intn(2) == 0
	if minLen(S) < g.lo {
		wantSub = true
	} else if maxLen(S) > g.hi {
		wantSub = false
	}
	if wantSub {
		op = g.sub()
	} else {
		op = Op{Kind: "next"}
	}
	if rng.Intn(60) == 0 {
		op = Op{Kind: "sub-foreign", Batch: "z"}
	}
	if rng.Intn(g.restartEvery) == 0 {
		if rng.Intn(2) == 0 {
			op = Op{Kind: "restart"}
		} else if op.Kind == "sub" || op.Kind == "next" {
			op.Crash = 1 + rng.Intn(maxCrashK)
		}
	}
	if op.Kind == "restart" || op.Crash != crashNone {
		if S2, _, _ := predicted(S, op, g.bound); minLen(S2) < 1 {
			// the new process could find an empty queue: the queue life would end here
			op = g.sub()
		}
	}
	if len(S) > 16 && op.Crash != crashNone {
		// many crashes inside submissions are still undecided: no further fork for now
		op.Crash = crashNone
	}
	return op
}

// runLong generates and executes one long history with nAccept accepted submissions.
func runLong(seed int64, id, nAccept int) (History, *Verdict) {
	g := newLongGen(rand.New(rand.NewSource(seed)), id)
	v, h := judgeGen(History{ID: id, Region: regionLong, Bound: g.bound}, g.next, nAccept)
	return h, v
}

// longLengths: the sizes of the long histories of a tier, in accepted submissions (a history has
// two to three times as many operations). quick: many of 150-450 and a few above 12300;
// thorough adds some above 66000.
func longLengths(rng *rand.Rand, nShort, nMid, nHuge int) []int {
	var out []int
	for i := 0; i < nShort; i++ {
		out = append(out, 150+rng.Intn(301))
	}
	for i := 0; i < nMid; i++ {
		out = append(out, 12300+rng.Intn(700))
	}
	for i := 0; i < nHuge; i++ {
		out = append(out, 66000+rng.Intn(1000))
	}
	return out
}

// shrinkBudget is the shrinker for long histories: cut the history after the failing operation,
// then remove chunks of halving size (and unneeded crashes) while keep(verdict) stays true. The
// effort is bounded by the number of operations executed, not by time.
func shrinkBudget(h History, keep func(*Verdict) bool, budgetOps int) History {
	judge := func(c History) *Verdict {
		budgetOps -= len(c.Ops) + 1
		return Judge(c)
	}
	v := judge(h)
	if !keep(v) {
		return h
	}
	if v.At >= 0 && v.At+1 < len(h.Ops) {
		c := h
		c.Ops = append([]Op(nil), h.Ops[:v.At+1]...)
		if keep(judge(c)) {
			h = c
		}
	}
	for chunk := len(h.Ops) / 2; chunk >= 1 && budgetOps > 0; {
		changed := false
		for end := len(h.Ops); end > 0 && budgetOps > 0; end -= chunk {
			start := end - chunk
			if start < 0 {
				start = 0
			}
			c := h
			c.Ops = append(append([]Op(nil), h.Ops[:start]...), h.Ops[end:]...)
			if keep(judge(c)) {
				h = c
				changed = true
			}
		}
		if chunk == 1 && !changed {
			break
		}
		if chunk > 1 {
			chunk /= 2
		}
	}
	for i := 0; i < len(h.Ops) && budgetOps > 0; i++ {
		if h.Ops[i].Crash != 0 {
			c := h
			c.Ops = append([]Op(nil), h.Ops...)
			c.Ops[i].Crash = 0
			if keep(judge(c)) {
				h = c
			}
		}
	}
	return h
}
