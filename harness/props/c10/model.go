package c10

import (
	"fmt"
	"sort"
	"strings"
)

// This file is the reference model of C10: a bounded FIFO of batch names that survives
// restarts. It shares no code with /repo/sequencers/single. It is a *set-of-states* model:
// an operation cut by a crash may or may not have taken effect, so both successor states are
// kept and later observations eliminate the impossible ones.
//
// Trigger points. Two defects of the real queue are recorded as findings (DESIGN §8):
//   C10-content-hash-key  the durable key of a queued batch is its content hash, so equal
//                         batches share one durable record;
//   C10-reload-order      a restart reloads in key order instead of acceptance order.
// Their trigger predicates are evaluated on the model state at every restart:
//   trigA(s) = some content c is "tainted" in s (two copies of c were queued at the same time
//              since c was last absent from the queue / since the last restart) and at least
//              one copy of c is still queued;
//   trigB(s) = at least two batches are queued in s.
// At a restart where a trigger holds the model forks: next to the conforming successor it keeps
// successors with exactly the *predicted* deviation (trigA: of the copies of a tainted content
// exactly one survives if the last operation on that content was a submit, none if it was a
// next; trigB: the reloaded batches come back in an unknown order). A successor that needed a
// deviation carries a flag. Where no trigger holds nothing is forked, so in the clean region
// the model is the plain bounded FIFO.

// Obs is what the client saw for one operation.
type Obs struct {
	Kind  string `json:"kind"`            // ok | rejected | err | empty | batch | cut | restarted | restart-failed
	Batch string `json:"batch,omitempty"` // name of the batch handed out (kind=batch)
	Err   string `json:"err,omitempty"`
	// fullIdentity: the rejection's error carries the identity of single.ErrQueueFull (evidence only)
	fullIdentity bool
}

func (o Obs) String() string {
	switch o.Kind {
	case "batch":
		return "->" + o.Batch
	case "err", "restart-failed", "rejected":
		return o.Kind + "(" + o.Err + ")"
	}
	return o.Kind
}

// emptyName stands for an empty submission in the queue of the model: an implementation may ignore
// an empty submission or queue it and hand it out once, in order (at the interface it then looks
// like the answer of an empty queue).
const emptyName = "∅"

type mstate struct {
	q       []string        // queued batch names in acceptance order
	bag     int             // the first bag elements were reloaded in unknown order (trigB fork, or records of an older version)
	em      [2]int8         // what the implementation does with an empty submission ([0]: empty batch, [1]: nil batch): 0 not seen yet, 1 ignores it, 2 queues it
	bagFree bool            // the unknown order of the bag is legitimate (records written by an older version): no deviation is flagged
	present map[string]bool // last durable operation on the content was a submit (only read for tainted contents)
	taint   map[string]bool
	loss    bool // a predicted content-hash-key loss was needed to explain the observations
	perm    bool // a predicted reload-order permutation was needed
	notes   []string
}

func newState() *mstate {
	return &mstate{present: map[string]bool{}, taint: map[string]bool{}}
}

func (s *mstate) clone() *mstate {
	c := &mstate{q: append([]string(nil), s.q...), bag: s.bag, bagFree: s.bagFree, em: s.em, present: map[string]bool{}, taint: map[string]bool{},
		loss: s.loss, perm: s.perm, notes: append([]string(nil), s.notes...)}
	for k, v := range s.present {
		if v {
			c.present[k] = true
		}
	}
	for k, v := range s.taint {
		if v {
			c.taint[k] = true
		}
	}
	return c
}

func setStr(m map[string]bool) string {
	ks := make([]string, 0, len(m))
	for k, v := range m {
		if v {
			ks = append(ks, k)
		}
	}
	sort.Strings(ks)
	return strings.Join(ks, ",")
}

func (s *mstate) key() string {
	// present only matters for tainted contents
	pr := map[string]bool{}
	for c := range s.taint {
		if s.present[c] {
			pr[c] = true
		}
	}
	return fmt.Sprintf("%s|%d%v|%v|%s|%s|%v%v", strings.Join(s.q, ","), s.bag, s.bagFree && s.bag > 0, s.em, setStr(pr), setStr(s.taint), s.loss, s.perm)
}

func (s *mstate) count(c string) int {
	n := 0
	for _, x := range s.q {
		if x == c {
			n++
		}
	}
	return n
}

func (s *mstate) full(bound int) bool { return bound > 0 && len(s.q) >= bound }

func (s *mstate) push(c string) {
	s.q = append(s.q, c)
	s.present[c] = true
	if s.count(c) >= 2 {
		s.taint[c] = true
	}
}

func (s *mstate) removeAt(i int) {
	c := s.q[i]
	s.q = append(append([]string(nil), s.q[:i]...), s.q[i+1:]...)
	s.present[c] = false
	if s.count(c) == 0 {
		delete(s.taint, c)
	}
}

func (s *mstate) describe() string {
	d := "[" + strings.Join(s.q, " ") + "]"
	if s.bag > 0 {
		d += fmt.Sprintf(" (first %d in unknown order)", s.bag)
	}
	if s.loss {
		d += " +loss"
	}
	if s.perm {
		d += " +perm"
	}
	return d
}

func dedupe(in []*mstate) []*mstate {
	seen := map[string]bool{}
	var out []*mstate
	for _, s := range in {
		k := s.key()
		if !seen[k] {
			seen[k] = true
			out = append(out, s)
		}
	}
	return out
}

// stepSub filters/advances the state set for an observed submission of content c.
func stepSub(S []*mstate, c string, bound int, o Obs) []*mstate {
	var out []*mstate
	for _, s := range S {
		switch o.Kind {
		case "ok":
			if !s.full(bound) {
				n := s.clone()
				n.push(c)
				out = append(out, n)
			}
		case "rejected":
			if s.full(bound) {
				out = append(out, s)
			}
		}
	}
	return dedupe(out)
}

// stepSubEmpty: an empty submission that returned without error was either ignored or queued;
// an implementation does the same thing every time (per kind: nil batch / batch without
// transactions), so the fork happens once.
func stepSubEmpty(S []*mstate, bound int, isNil bool) []*mstate {
	k := 0
	if isNil {
		k = 1
	}
	var out []*mstate
	for _, s := range S {
		if s.em[k] != 2 {
			n := s
			if s.em[k] == 0 {
				n = s.clone()
				n.em[k] = 1
			}
			out = append(out, n)
		}
		if s.em[k] != 1 && !s.full(bound) {
			n := s.clone()
			n.em[k] = 2
			n.q = append(n.q, emptyName)
			out = append(out, n)
		}
	}
	return dedupe(out)
}

// newLegacyState is the state of a queue whose database holds records of an older version: they
// come first, in an order nobody can know.
func newLegacyState(names []string) *mstate {
	s := newState()
	for _, n := range names {
		s.push(n)
	}
	s.bag, s.bagFree = len(names), true
	return s
}

// stepNext filters/advances the state set for an observed GetNextBatch.
func stepNext(S []*mstate, o Obs) []*mstate {
	var out []*mstate
	for _, s := range S {
		switch o.Kind {
		case "empty":
			if len(s.q) == 0 {
				out = append(out, s)
				continue
			}
			// a queued empty submission coming out looks the same
			lim := 1
			if s.bag > 0 {
				lim = s.bag
			}
			for i := 0; i < lim && i < len(s.q); i++ {
				if s.q[i] == emptyName {
					n := s.clone()
					n.removeAt(i)
					if n.bag > 0 {
						n.bag--
					}
					out = append(out, n)
					break
				}
			}
		case "batch":
			if len(s.q) == 0 {
				continue
			}
			if s.bag > 0 {
				for i := 0; i < s.bag && i < len(s.q); i++ {
					if s.q[i] == o.Batch {
						n := s.clone()
						n.removeAt(i)
						n.bag--
						if i > 0 && !s.bagFree {
							n.perm = true
							n.notes = append(n.notes, fmt.Sprintf("%s handed out before %s which was accepted earlier", o.Batch, s.q[0]))
						}
						out = append(out, n)
						break
					}
				}
			} else if s.q[0] == o.Batch {
				n := s.clone()
				n.removeAt(0)
				out = append(out, n)
			}
		}
	}
	return dedupe(out)
}

// effSub is the effect a conforming queue gives a submission of c (used for the operation cut
// by a crash and for the generation-time prediction).
func effSub(s *mstate, c string, bound int) *mstate {
	if s.full(bound) {
		return s
	}
	n := s.clone()
	n.push(c)
	return n
}

// effNext: the possible effects of a GetNextBatch whose output nobody saw.
func effNext(s *mstate) []*mstate {
	if len(s.q) == 0 {
		return []*mstate{s}
	}
	if s.bag == 0 {
		n := s.clone()
		n.removeAt(0)
		return []*mstate{n}
	}
	var out []*mstate
	seen := map[string]bool{}
	for i := 0; i < s.bag && i < len(s.q); i++ {
		if seen[s.q[i]] {
			continue
		}
		seen[s.q[i]] = true
		n := s.clone()
		n.removeAt(i)
		n.bag--
		if i > 0 && !s.bagFree {
			n.perm = true
		}
		out = append(out, n)
	}
	return out
}

func trigA(s *mstate) bool {
	for c := range s.taint {
		if s.count(c) >= 1 {
			return true
		}
	}
	return false
}

func trigB(s *mstate) bool { return len(s.q) >= 2 }

func afterRestart(s *mstate) *mstate {
	n := s.clone()
	n.taint = map[string]bool{}
	n.present = map[string]bool{}
	for _, c := range n.q {
		n.present[c] = true
	}
	if n.bag > len(n.q) {
		n.bag = len(n.q)
	}
	if len(n.q) < 2 {
		n.bag = 0
	}
	return n
}

// stepRestart: successors of a restart. tolerate=false gives the plain model (used for the
// generation-time trigger predicates); tolerate=true additionally forks the predicted
// deviations at trigger points.
func stepRestart(S []*mstate, tolerate bool) (out []*mstate, a, b bool) {
	for _, s := range S {
		ta, tb := trigA(s), trigB(s)
		a = a || ta
		b = b || tb
		variants := []*mstate{s}
		if tolerate && ta {
			variants = append(variants, lossVariants(s)...)
		}
		for _, v := range variants {
			// conforming: the order is kept (an order that was already unknown stays unknown)
			n := afterRestart(v)
			out = append(out, n)
			// predicted deviation: everything queued comes back in unknown order
			if tolerate && tb && len(n.q) >= 2 && n.bag < len(n.q) && !(n.bagFree && n.bag > 0) {
				p := n.clone()
				p.bag = len(p.q)
				out = append(out, p)
			}
		}
	}
	return dedupe(out), a, b
}

// lossVariants: the predicted effect of the content-hash key on a restart. For every tainted
// content with copies queued: one copy survives when the last operation on that content was a
// submit (any position: the copies are indistinguishable), none when it was a next.
func lossVariants(s *mstate) []*mstate {
	var cs []string
	for c := range s.taint {
		if s.count(c) >= 1 {
			cs = append(cs, c)
		}
	}
	sort.Strings(cs)
	cur := []*mstate{s.clone()}
	for _, c := range cs {
		var next []*mstate
		for _, v := range cur {
			var pos []int
			for i, x := range v.q {
				if x == c {
					pos = append(pos, i)
				}
			}
			if !v.present[c] {
				n := dropPositions(v, pos, -1)
				n.notes = append(n.notes, fmt.Sprintf("all %d queued copies of %s lost at restart (their shared record was deleted when an equal batch was handed out)", len(pos), c))
				next = append(next, n)
				continue
			}
			// the copies are indistinguishable; which one survives only matters for the order of
			// what is left, and first/last are the two extremes
			keeps := []int{pos[0]}
			if len(pos) > 1 {
				keeps = append(keeps, pos[len(pos)-1])
			}
			for _, keep := range keeps {
				n := dropPositions(v, pos, keep)
				n.notes = append(n.notes, fmt.Sprintf("%d of %d queued copies of %s lost at restart (equal batches share one record)", len(pos)-1, len(pos), c))
				next = append(next, n)
			}
		}
		cur = next
	}
	for _, v := range cur {
		v.loss = true
	}
	return cur
}

func dropPositions(s *mstate, pos []int, keep int) *mstate {
	n := s.clone()
	drop := map[int]bool{}
	for _, p := range pos {
		if p != keep {
			drop[p] = true
		}
	}
	var q []string
	bag := 0
	for i, x := range n.q {
		if drop[i] {
			continue
		}
		q = append(q, x)
		if i < n.bag {
			bag++
		}
	}
	n.q = q
	n.bag = bag
	return n
}

// bestState picks the surviving state that needed the fewest predicted deviations.
func bestState(S []*mstate) *mstate {
	var best *mstate
	score := func(s *mstate) int {
		n := 0
		if s.loss {
			n += 2
		}
		if s.perm {
			n++
		}
		return n
	}
	for _, s := range S {
		if best == nil || score(s) < score(best) {
			best = s
		}
	}
	return best
}

func describeStates(S []*mstate) string {
	var parts []string
	for i, s := range S {
		if i >= 6 {
			parts = append(parts, fmt.Sprintf("… %d more", len(S)-i))
			break
		}
		parts = append(parts, s.describe())
	}
	return strings.Join(parts, " | ")
}

func maxLen(S []*mstate) int {
	m := 0
	for _, s := range S {
		if len(s.q) > m {
			m = len(s.q)
		}
	}
	return m
}
