// Package c10 decides C10: the single sequencer's batch queue is a durable FIFO with
// exactly-once delivery (see /verif/DESIGN.md §7).
//
// Files: model.go (set-of-states bounded FIFO reference model with the trigger predicates and
// predicted shapes of the two recorded findings), seq.go (generator, execution of sequential
// histories with restarts and crashes against the real sequencer, shrinker), conc.go
// (concurrent clients, porcupine, conservation), fault.go (directed histories that put a process
// death at every durable write of one operation; observation of datastore writes that fail while
// the process survives).
//
// All deciding oracles are stated at the sequencer's interface (what is handed out, by the running
// process and by one restarted over the same database); database keys and bytes are evidence.
package c10

import (
	"fmt"
	"runtime/debug"
	"sort"
	"strings"
	"sync"

	"verifharness/vk"
	"verifharness/world"
)

// Level is the verification level claimed for this property.
const Level = "exploration"

type reporter struct {
	r    *vk.Run
	mu   sync.Mutex
	seen map[string]int
	max  map[string]int64
}

// guarded runs one case; a panic of the code under test becomes a `no-panic` violation (vk.Guard)
// instead of killing the check. The report is made under the output lock of this package.
func guarded(r *vk.Run, desc any, f func()) {
	defer func() {
		if p := recover(); p != nil {
			stack := string(debug.Stack())
			reporting(func() {
				r.Guard(map[string]any{"case": desc, "stack_of_the_panic": stack}, func() { panic(p) })
			})
		}
	}()
	f()
}

// limit returns true while fewer than n reports with this signature were made.
func (rp *reporter) limit(sig string, n int) bool {
	rp.mu.Lock()
	defer rp.mu.Unlock()
	rp.seen[sig]++
	return rp.seen[sig] <= n
}

func (rp *reporter) seq(h History, v *Verdict) {
	r := rp.r
	for c, n := range v.hits {
		r.HitN(c, n)
	}
	for c, n := range v.counts {
		if strings.HasPrefix(c, "max_") {
			rp.mu.Lock()
			if n > rp.max[c] {
				rp.max[c] = n
			}
			rp.mu.Unlock()
			continue
		}
		r.Count(c, n)
	}
	r.Count("ops_executed", int64(len(v.Trace)))
	r.Count("restarts", int64(v.nRest))
	r.Count("restarts_"+h.Region, int64(v.nRest))
	r.Count("crashes", int64(v.nCrash))
	r.Count("rejected_submissions", int64(v.nReject))
	r.Count("histories_"+h.Region, 1)
	nontrivial := v.nReject+v.nRest+v.nCrash > 0
	sampleOps := opStrings(h.Ops)
	if len(sampleOps) > 120 {
		sampleOps = append(sampleOps[:120:120], fmt.Sprintf("... %d more operations", len(h.Ops)-120))
	}
	r.Eval(h.Region+":"+h.kinds(), nontrivial, map[string]any{"region": h.Region, "queue_bound": h.Bound, "ops": sampleOps, "verdict": v.Kind})
	if h.Region == regionLong && v.Kind == "pass" {
		r.Hit("long-history")
	}
	switch v.Kind {
	case "pass":
		if v.TrigA || v.TrigB {
			r.Count("trigger_history_without_failure", 1)
		}
	case "inconclusive":
		r.Inconclusive(fmt.Sprintf("sequential history %d: %s", h.ID, v.Detail))
	case "finding":
		if h.Region == "clean" || h.Region == "legacy" || h.Region == regionLong {
			// cannot happen: no trigger point exists in a clean history, none is forked with legacy records
			// or in a long history
			rp.violation(h, v, "fifo-model", "deviation flagged in a history without trigger point: "+v.Detail)
			return
		}
		for _, id := range v.IDs {
			r.Count("reproduced:"+id, 1)
			// when the finding is not listed every reproduction would be a VIOLATION line: report
			// the first (shrunk) one per id and count the others
			first := rp.limit("finding/"+id, 1)
			if !first && !r.IsKnown(id) {
				continue
			}
			small, sv := h, v
			if first {
				small = shrink(h, hasFinding(id))
				small = shrink(small, onlyFinding(id))
				sv = Judge(small)
			}
			w := witness(small, sv)
			w["trigger"] = triggerText(id)
			reporting(func() {
				r.Finding(id, clauseOf(id), fmt.Sprintf("bound=%d history=[%s] (+drain): %s", small.Bound, strings.Join(opStrings(small.Ops), ", "), sv.Detail), w)
			})
		}
	case "violation":
		rp.violation(h, v, v.Clause, v.Detail)
	}
}

func (rp *reporter) violation(h History, v *Verdict, clause, detail string) {
	if !rp.limit("violation/"+clause, 3) {
		rp.r.Count("violations_not_listed:"+clause, 1)
		return
	}
	small, sv := h, v
	if v.Kind == "violation" {
		if len(h.Ops) > 120 {
			small = shrinkBudget(h, sameVerdict(v), 3000000)
		} else {
			small = shrink(h, sameVerdict(v))
		}
		sv = Judge(small)
		detail = sv.Detail
	}
	w := witness(small, sv)
	if len(h.Ops) > 2000 {
		w["original_history"] = fmt.Sprintf("history %d of region %s with %d operations (a function of the seed; not stored)", h.ID, h.Region, len(h.Ops))
	} else {
		w["original_history"] = h
	}
	reporting(func() {
		if len(small.Ops) > 40 {
			// the printed line is cut: what was observed goes first
			rp.r.Violation(clause, fmt.Sprintf("region=%s bound=%d: %s; history of %d operations (shrunk from %d)=[%s]", h.Region, small.Bound, detail, len(small.Ops), len(h.Ops), strings.Join(opStrings(small.Ops), ", ")), w)
			return
		}
		rp.r.Violation(clause, fmt.Sprintf("region=%s bound=%d legacy-records=%v history=[%s]: %s", h.Region, small.Bound, small.Legacy, strings.Join(opStrings(small.Ops), ", "), detail), w)
	})
}

func clauseOf(id string) string {
	if id == "C10-reload-order" {
		return "fifo-order-across-restart"
	}
	return "durable-exactly-once"
}

func triggerText(id string) string {
	if id == "C10-reload-order" {
		return "a restart (or crash-restart) while >= 2 batches are queued"
	}
	return "two batches with equal contents queued at the same time, and a restart (or crash-restart) while a copy is still queued"
}

func witness(h History, v *Verdict) map[string]any {
	a, b := Triggers(h)
	return map[string]any{"history": h, "verdict": v, "trigger_content_hash_key": a, "trigger_reload_order": b}
}

func opStrings(ops []Op) []string {
	out := make([]string, len(ops))
	for i, o := range ops {
		out[i] = o.String()
	}
	return out
}

func pool(n int, f func(i int)) {
	var wg sync.WaitGroup
	ch := make(chan int)
	for w := 0; w < 12; w++ {
		wg.Add(1)
		go func() {
			defer wg.Done()
			for i := range ch {
				f(i)
			}
		}()
	}
	for i := 0; i < n; i++ {
		ch <- i
	}
	close(ch)
	wg.Wait()
}

// Run is the check entry point.
func Run(r *vk.Run) {
	world.Silence()
	r.Rule = "sequential: seeded histories of 20-80 operations {submit(batch from the alphabet z|a|m, or unique) | submit empty/nil | submit foreign chain id | next | restart | submit/next during which the process dies at its 1st, 2nd or 3rd durable write (or right after the operation if it makes fewer)} on the real single sequencer over MemDS, queue bound 1|2|5|unbounded, then drain + restart; one in ten histories starts on a database holding 1-3 records of the version before the sequence-numbered keys; 420 directed histories put the death at write 1|2|3 of a submit / next into fixed small contexts; " +
		"long: histories with 150-450 accepted submissions (and a few with > 12300; thorough also > 66000) of unique batches in which at least one batch is pending at every restart and crash, so that one queue life spans the whole history (pending window 2-4|2-10|8-48, restart or crash every 3|8|20|50 operations, bound 0|4|8|64), judged by the plain FIFO model; " +
		"non-trivial = >= 1 rejected, restarted or crashed operation; distinct by (region, bound, operation-kind sequence). " +
		"concurrent: 2-6 client goroutines with unique batch ids, <= 60 recorded operations; always non-trivial; distinct by hash of the recorded history (client, op, output, call, return). " +
		"Regions: clean = no restart is a trigger point (no tainted content queued, <= 1 batch queued); content-hash-key = trigger A holds at some restart; reload-order = trigger B holds and A never."
	r.Assume("datastore is the in-memory MemDS double (durable Put/Delete, ordered Query); a crash = every datastore call fails from the chosen write on, restart = new Sequencer over the same image")
	r.Assume("the output of an operation cut by a crash is seen by nobody; the model allows both outcomes for it")
	r.Assume("the real queue prints a failed durable delete with fmt.Printf; around a GetNextBatch that is cut by a crash the process-wide stdout is pointed at /dev/null (all reporting of this check is serialised with that)")
	r.Assume("concurrent histories are time-stamped by one atomic counter taken before the call and after the return")
	r.Assume("a rejected submission 'leaves no trace' is judged by behaviour: a sequencer restarted on the database after the call hands out what one restarted on the database before the call hands out; the queue bound is judged at the interface (accepted-and-not-handed-out count of the model); database keys and bytes are evidence only")
	r.Assume("a long history is generated while it is executed (the generator keeps >= 1 batch pending in every possible state of the model at each restart): it is a function of the seed and of the answers of the queue; the executed history is an ordinary history and is what the witness holds")
	r.Assume("datastore writes that fail while the process survives are outside the quantifier (it names crashes): observed (write_fault_observations), not judged")
	rp := &reporter{r: r, seen: map[string]int{}, max: map[string]int64{}}

	nSeq := r.N(15000, 100000)
	nClean := nSeq * 6 / 10
	nA := nSeq * 2 / 10
	nLegacy := nSeq / 10
	nB := nSeq - nClean - nA - nLegacy
	nConc := r.N(1500, 6000)

	// the case lists are a function of the seed only
	rng := r.Rand("sequential")
	clean := make([]History, nClean)
	for i := range clean {
		clean[i] = genSeq(rng, i, "clean")
	}
	regA := directed()[:3]
	for i := 0; i < nA; i++ {
		regA = append(regA, genSeq(rng, nClean+i, "content-hash-key"))
	}
	regB := directed()[3:]
	for i := 0; i < nB; i++ {
		regB = append(regB, genSeq(rng, nClean+nA+i, "reload-order"))
	}
	legacy := make([]History, nLegacy)
	for i := range legacy {
		legacy[i] = genSeq(rng, nSeq+i, "legacy")
	}
	templates := crashTemplates()
	// long histories (long.go): one queue life over the whole history; the longest first
	lrng := r.Rand("long")
	lens := longLengths(lrng, r.N(48, 400), r.N(2, 12), r.N(0, 4))
	sort.Sort(sort.Reverse(sort.IntSlice(lens)))
	lseeds := make([]int64, len(lens))
	for i := range lseeds {
		lseeds[i] = lrng.Int63()
	}
	crng := r.Rand("concurrent")
	conc := make([]CHistory, nConc)
	for i := range conc {
		conc[i] = genConc(crng, i)
	}

	r.Require("fifo-model", int64(nClean*10))
	r.Require("delivery", int64(nClean*3))
	r.Require("no-trace", int64(nClean))
	r.Require("foreign-rejected", int64(nClean))
	r.Require("empty-submission", int64(nClean/2))
	r.Require("legacy-records-first", int64(nLegacy*9/10))
	r.Require("write-fault-observed", 12)
	r.Require("restart-continuity", int64(nClean/4))
	r.Require("crash-atomicity", int64(nClean/4))
	r.Require("bound", int64(nClean))
	r.Require("bound-change-submission-at-or-above-bound", int64(r.N(1500, 6000)/2))
	r.Require("bound-change-submission-with-backlog-above-bound", int64(r.N(1500, 6000)/4))
	r.Require("no-reappearance", int64(nClean))
	r.Require("linearizable", int64(nConc*8/10))
	r.Require("conservation", int64(nConc*8/10))

	r.Require("long-history", int64(len(lens)))

	// 1. clean region: every failure is a violation
	pool(len(lens), func(i int) {
		guarded(r, fmt.Sprintf("long history %d (%d accepted submissions, generator seed %d)", 2*nSeq+i, lens[i], lseeds[i]), func() {
			h, v := runLong(lseeds[i], 2*nSeq+i, lens[i])
			rp.seq(h, v)
		})
	})
	pool(len(clean), func(i int) { guarded(r, clean[i], func() { rp.seq(clean[i], Judge(clean[i])) }) })
	pool(len(templates), func(i int) { guarded(r, templates[i], func() { rp.seq(templates[i], Judge(templates[i])) }) })
	pool(len(legacy), func(i int) { guarded(r, legacy[i], func() { rp.seq(legacy[i], Judge(legacy[i])) }) })
	guarded(r, "write-fault probes", func() { writeFaultProbes(r) })
	guarded(r, "bound-change probes", func() { boundChangeProbes(r, r.Rand("bound-change"), r.N(1500, 6000)) })

	// 2. concurrent histories (unique ids: outside both trigger regions)
	var cmu sync.Mutex
	opsTotal := 0
	pool(len(conc), func(i int) {
		h := conc[i]
		var v *CVerdict
		guarded(r, h, func() { v = JudgeConc(h) })
		if v == nil {
			return
		}
		for c, n := range v.hits {
			r.HitN(c, n)
		}
		cmu.Lock()
		opsTotal += v.nOps
		cmu.Unlock()
		r.Count("concurrent_ops_overlapping_another_client", int64(v.overlap))
		r.Count("concurrent_rejected", int64(v.nFull))
		r.Count("rejections_carrying_ErrQueueFull", int64(v.nFullIdentity))
		rp.mu.Lock()
		if int64(v.keys) > rp.max["max_keys_in_database_after_concurrent_phase"] {
			rp.max["max_keys_in_database_after_concurrent_phase"] = int64(v.keys)
		}
		rp.mu.Unlock()
		r.Count("histories_concurrent", 1)
		r.Eval("conc:"+v.sig, true, map[string]any{"clients": len(h.Clients), "queue_bound": h.Bound, "restart_before_drain": h.Restart, "records": v.Records, "drain": v.Drain})
		switch v.Kind {
		case "inconclusive":
			r.Inconclusive(fmt.Sprintf("concurrent history %d: %s", h.ID, v.Detail))
		case "violation":
			if rp.limit("cviolation/"+v.Clause, 3) {
				reporting(func() {
					r.Violation(v.Clause, fmt.Sprintf("concurrent history %d (%d clients, bound %d): %s", h.ID, len(h.Clients), h.Bound, v.Detail), map[string]any{"history": h, "verdict": v})
				})
			} else {
				r.Count("violations_not_listed:"+v.Clause, 1)
			}
		}
	})
	r.Count("concurrent_ops_recorded", int64(opsTotal))

	// 3. trigger regions, exercised separately
	// (the directed smallest histories first, so that they are the ones reported)
	for _, h := range append(regA[:3:3], regB[:2]...) {
		h := h
		guarded(r, h, func() { rp.seq(h, Judge(h)) })
	}
	regA, regB = regA[3:], regB[2:]
	pool(len(regA), func(i int) { guarded(r, regA[i], func() { rp.seq(regA[i], Judge(regA[i])) }) })
	pool(len(regB), func(i int) { guarded(r, regB[i], func() { rp.seq(regB[i], Judge(regB[i])) }) })
	for k, n := range rp.max {
		r.Set(k, n)
	}
}
