// Package c10 decides C10 (see /verif/DESIGN.md §7).
package c10

import "verifharness/vk"

// Level is the verification level claimed for this property.
const Level = "exploration"

// Run is the check entry point.
func Run(r *vk.Run) {
	r.Rule = "not implemented yet"
}
