package c10

import (
	"crypto/sha256"
	"encoding/hex"
	"fmt"
	"math/rand"
	"runtime"
	"runtime/debug"
	"sort"
	"strings"
	"sync"
	"sync/atomic"
	"time"

	"github.com/anishathalye/porcupine"
	coresequencer "github.com/evstack/ev-node/core/sequencer"

	"verifharness/world"
)

// COp is one planned client operation of a concurrent history.
type COp struct {
	Kind string `json:"kind"` // sub | next
	ID   string `json:"id,omitempty"`
}

// CHistory is one generated concurrent case: per client a list of operations, all batch ids unique.
type CHistory struct {
	ID      int     `json:"id"`
	Bound   int     `json:"queue_bound"`
	Clients [][]COp `json:"clients"`
	Restart bool    `json:"restart_before_drain"`
	Yield   bool    `json:"yield_in_datastore"`
}

// CRec is one recorded call at the client boundary.
type CRec struct {
	Client int    `json:"client"`
	Op     string `json:"op"`
	In     string `json:"input,omitempty"`
	Call   int64  `json:"call"`
	Out    string `json:"output"`
	Ret    int64  `json:"return"`
}

func genConc(rng *rand.Rand, id int) CHistory {
	bounds := []int{1, 2, 5, 0}
	h := CHistory{ID: id, Bound: bounds[rng.Intn(4)], Restart: rng.Intn(2) == 0, Yield: rng.Intn(3) != 0}
	nc := 2 + rng.Intn(5)
	total := 12 + rng.Intn(31) // 12..42 planned operations; the drain adds at most (#subs+1)
	pSub := 40 + rng.Intn(30)
	h.Clients = make([][]COp, nc)
	n := 0
	subs := 0
	for i := 0; i < total; i++ {
		c := rng.Intn(nc)
		if rng.Intn(100) < pSub && subs < 16 {
			n++
			subs++
			h.Clients[c] = append(h.Clients[c], COp{Kind: "sub", ID: fmt.Sprintf("c%d-%d", c, id*1000+n)})
		} else {
			h.Clients[c] = append(h.Clients[c], COp{Kind: "next"})
		}
	}
	return h
}

type qIn struct {
	op string
	id string
}

// fifoModel is the porcupine model of the bounded FIFO; the state is the queue as "id,id,".
func fifoModel(bound int) porcupine.Model {
	return porcupine.Model{
		Init: func() interface{} { return "" },
		Step: func(state, input, output interface{}) (bool, interface{}) {
			st := state.(string)
			in := input.(qIn)
			out := output.(string)
			n := strings.Count(st, ",")
			switch in.op {
			case "sub":
				if bound > 0 && n >= bound {
					return out == "rejected", st
				}
				return out == "ok", st + in.id + ","
			case "next":
				if n == 0 {
					return out == "empty", st
				}
				i := strings.IndexByte(st, ',')
				return out == "->"+st[:i], st[i+1:]
			}
			return false, st
		},
		DescribeOperation: func(input, output interface{}) string {
			in := input.(qIn)
			return fmt.Sprintf("%s(%s) %s", in.op, in.id, output.(string))
		},
	}
}

// CVerdict is the judgement of one concurrent history.
type CVerdict struct {
	Kind    string   `json:"verdict"` // pass | violation | inconclusive
	Clause  string   `json:"clause,omitempty"`
	Detail  string   `json:"detail,omitempty"`
	Records []CRec   `json:"records"`
	Drain   []string `json:"drain"`
	hits    map[string]int64
	nOps    int
	overlap int // recorded operations whose call/return interval overlaps another client's operation
	nFull   int
	sig     string
	// evidence only
	nFullIdentity int
	keys          int // keys in the database when the clients were done
}

// JudgeConc runs the planned clients concurrently against one real sequencer and judges the
// recorded history: linearizability against the bounded FIFO (porcupine) and conservation.
func JudgeConc(h CHistory) *CVerdict {
	v := &CVerdict{Kind: "pass", hits: map[string]int64{}}
	im := world.NewImage()
	var yield func()
	if h.Yield {
		yield = runtime.Gosched
	}
	p, err := startProcY(im, h.Bound, yield)
	if err != nil {
		v.Kind, v.Clause, v.Detail = "violation", "startup", err.Error()
		return v
	}
	names := map[string]string{}
	for _, cl := range h.Clients {
		for _, op := range cl {
			if op.Kind == "sub" {
				names[contentKey(txsOf(op.ID))] = op.ID
			}
		}
	}
	var clock, nFullIdentity atomic.Int64
	var mu sync.Mutex
	var recs []CRec
	var panics []string
	start := make(chan struct{})
	var wg sync.WaitGroup
	for c, ops := range h.Clients {
		wg.Add(1)
		go func(c int, ops []COp) {
			defer wg.Done()
			defer func() {
				// a panic of the code under test on a client goroutine must not take the check down
				if p := recover(); p != nil {
					mu.Lock()
					panics = append(panics, fmt.Sprintf("client %d: %v\n%s", c, p, debug.Stack()))
					mu.Unlock()
				}
			}()
			<-start
			for _, op := range ops {
				rec := CRec{Client: c, Op: op.Kind, In: op.ID}
				rec.Call = clock.Add(1)
				var o Obs
				if op.Kind == "sub" {
					o = p.submit(chainID, &coresequencer.Batch{Transactions: txsOf(op.ID)})
				} else {
					o = p.next(names)
				}
				rec.Ret = clock.Add(1)
				rec.Out = o.String()
				if o.Kind == "rejected" {
					// any error is a rejection; which error is not the property's business
					rec.Out = "rejected"
					if o.fullIdentity {
						nFullIdentity.Add(1)
					}
				}
				mu.Lock()
				recs = append(recs, rec)
				mu.Unlock()
			}
		}(c, ops)
	}
	close(start)
	wg.Wait()
	sort.Slice(recs, func(i, j int) bool { return recs[i].Call < recs[j].Call })
	v.Records = recs
	v.nOps = len(recs)
	for i, a := range recs {
		for j, b := range recs {
			if i != j && a.Client != b.Client && a.Call < b.Ret && b.Call < a.Ret {
				v.overlap++
				break
			}
		}
	}
	fail := func(clause, detail string) *CVerdict {
		v.Kind, v.Clause, v.Detail = "violation", clause, detail
		return v
	}
	if len(panics) > 0 {
		return fail("no-panic", "the code under test panicked: "+panics[0])
	}
	accepted := map[string]bool{}
	rejected := map[string]bool{}
	delivered := map[string]int{}
	for _, r := range recs {
		switch {
		case r.Op == "sub" && r.Out == "ok":
			accepted[r.In] = true
		case r.Op == "sub":
			// refused; whether the queue may have been full at that moment is decided by the
			// linearizability check
			rejected[r.In] = true
			v.nFull++
		case r.Op == "next" && strings.HasPrefix(r.Out, "->"):
			delivered[strings.TrimPrefix(r.Out, "->")]++
		case r.Op == "next" && r.Out != "empty":
			return fail("fifo-model", fmt.Sprintf("client %d: GetNextBatch returned %s", r.Client, r.Out))
		}
	}
	v.nFullIdentity = int(nFullIdentity.Load())
	v.keys = len(im.Keys(""))
	// the bound itself (never more than Bound accepted and not yet handed out; refused only when that
	// many are) is part of the model the recorded history is checked against below
	// drain by a single client (optionally in a new process over the same datastore)
	ops := make([]porcupine.Operation, 0, len(recs)+20)
	for _, r := range recs {
		ops = append(ops, porcupine.Operation{ClientId: r.Client, Input: qIn{r.Op, r.In}, Call: r.Call, Output: r.Out, Return: r.Ret})
	}
	// what would a restart at this instant hand out? (a second sequencer over a copy of the datastore)
	var cloneOrder []string
	if cp, err := startProc(im.Clone(), h.Bound); err == nil {
		for i := 0; i < len(accepted)+2; i++ {
			o := cp.next(names)
			if o.Kind != "batch" {
				break
			}
			cloneOrder = append(cloneOrder, o.Batch)
		}
	}
	if h.Restart {
		p.ds.CrashNow()
		np, err := startProc(im, h.Bound)
		if err != nil {
			return fail("restart", "a new sequencer over the same datastore does not start: "+err.Error())
		}
		p = np
	}
	var drainOrder []string
	pending := len(accepted)
	for _, n := range delivered {
		pending -= n
	}
	for i := 0; i < pending+2; i++ {
		call := clock.Add(1)
		o := p.next(names)
		ret := clock.Add(1)
		v.Drain = append(v.Drain, o.String())
		if o.Kind == "err" {
			return fail("fifo-model", "GetNextBatch failed during the drain: "+o.Err)
		}
		// the drain (by the live process or by a restarted one) is part of the linearizability check
		ops = append(ops, porcupine.Operation{ClientId: len(h.Clients), Input: qIn{"next", ""}, Call: call, Output: o.String(), Return: ret})
		if o.Kind == "empty" {
			break
		}
		delivered[o.Batch]++
		drainOrder = append(drainOrder, o.Batch)
	}
	// the relative order of pending batches must not depend on whether the process restarted:
	// the copy restarted before the drain must hand out the same sequence as the drain itself
	v.hits["restart-order-agrees"]++
	if strings.Join(cloneOrder, ",") != strings.Join(drainOrder, ",") {
		return fail("restart-order-agrees", fmt.Sprintf("pending batches come out as %v from the running process but as %v from a sequencer restarted over a copy of the same datastore", drainOrder, cloneOrder))
	}
	// conservation: accepted == delivered, each exactly once; nothing rejected ever comes out
	v.hits["conservation"]++
	var problems []string
	for id, n := range delivered {
		if n > 1 {
			problems = append(problems, fmt.Sprintf("%s handed out %d times", id, n))
		}
		if !accepted[id] {
			if rejected[id] {
				problems = append(problems, fmt.Sprintf("%s was rejected (queue full) and handed out anyway", id))
			} else {
				problems = append(problems, fmt.Sprintf("%s handed out but never accepted", id))
			}
		}
	}
	for id := range accepted {
		if delivered[id] == 0 {
			problems = append(problems, fmt.Sprintf("%s accepted and never handed out", id))
		}
	}
	if len(problems) > 0 {
		sort.Strings(problems)
		return fail("conservation", strings.Join(problems, "; "))
	}
	// nothing may come back after a further restart
	p.ds.CrashNow()
	np, err := startProc(im, h.Bound)
	if err != nil {
		return fail("restart", err.Error())
	}
	p = np
	v.hits["no-reappearance"]++
	if o := p.next(names); o.Kind != "empty" {
		return fail("no-reappearance", "after drain and restart GetNextBatch returned "+o.String())
	}
	if len(ops) > 60 {
		ops = ops[:len(recs)] // keep the checked history within 60 operations
	}
	res := porcupine.CheckOperationsTimeout(fifoModel(h.Bound), ops, 10*time.Second)
	switch res {
	case porcupine.Ok:
		v.hits["linearizable"]++
		if h.Bound > 0 {
			v.hits["bound"]++
		}
	case porcupine.Illegal:
		return fail("linearizable", fmt.Sprintf("the recorded history of %d operations by %d clients (bound %d) has no linearization in the bounded FIFO model", len(ops), len(h.Clients), h.Bound))
	default:
		v.Kind, v.Detail = "inconclusive", "porcupine timed out"
	}
	// signature of the interleaving for distinct counting
	hs := sha256.New()
	for _, r := range recs {
		fmt.Fprintf(hs, "%d:%s:%s:%d:%d;", r.Client, r.Op, r.Out, r.Call, r.Ret)
	}
	v.sig = hex.EncodeToString(hs.Sum(nil)[:8])
	return v
}
