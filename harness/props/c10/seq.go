package c10

import (
	"bytes"
	"context"
	"encoding/hex"
	"errors"
	"fmt"
	"math/rand"
	"os"
	"strconv"
	"strings"
	"sync"
	"time"

	ds "github.com/ipfs/go-datastore"
	logging "github.com/ipfs/go-log/v2"
	"google.golang.org/protobuf/proto"

	coresequencer "github.com/evstack/ev-node/core/sequencer"
	"github.com/evstack/ev-node/sequencers/single"
	pb "github.com/evstack/ev-node/types/pb/evnode/v1"

	"verifharness/world"
)

const (
	chainID     = "c10-chain"
	foreignID   = "c10-other-chain"
	maxStateSet = 8192
	crashNone   = 0
	// Crash = k >= 1 on a submit / next: the process dies at the k-th durable write it attempts from
	// the start of the operation on (the first k-1 land). If the operation needs fewer writes it
	// returns normally, its output is seen, and the process dies right after it. With one write per
	// operation k=1 is "inside the operation, write lost" and k=2 "right after the operation"; an
	// operation that makes two writes is cut between them by k=2.
	maxCrashK = 3
	// legacyPrefix is where the version before the sequence-numbered keys kept its records (only
	// used to build the database such a version left behind, never to judge)
	legacyPrefix = "/batches"
)

// Op is one operation of a sequential history.
type Op struct {
	Kind  string `json:"kind"`            // sub | sub-empty | sub-foreign | next | restart
	Batch string `json:"batch,omitempty"` // batch name: z a m (alphabet) or u<n> (unique)
	Nil   bool   `json:"nil_batch,omitempty"`
	Crash int    `json:"crash,omitempty"` // on sub/next: k = the process dies at the k-th durable write from here on
}

func (o Op) String() string {
	s := o.Kind
	if o.Batch != "" {
		s += " " + o.Batch
	}
	if o.Nil {
		s += "(nil)"
	}
	if o.Crash != crashNone {
		s += fmt.Sprintf(" !dies-at-write-%d", o.Crash)
	}
	return s
}

// History is one generated sequential case.
type History struct {
	ID     int    `json:"id"`
	Region string `json:"region"` // clean | content-hash-key | reload-order (how it was generated)
	Bound  int    `json:"queue_bound"`
	// Legacy names batches whose records, in the format of the version before the sequence-numbered
	// keys (key = content hash), are in the database before the first sequencer starts
	Legacy []string `json:"legacy_records,omitempty"`
	Ops    []Op     `json:"ops"`
}

func (h History) kinds() string {
	var sb strings.Builder
	fmt.Fprintf(&sb, "b%d:", h.Bound)
	if len(h.Legacy) > 0 {
		fmt.Fprintf(&sb, "L%d:", len(h.Legacy))
	}
	for _, o := range h.Ops {
		switch o.Kind {
		case "sub":
			if strings.HasPrefix(o.Batch, "u") {
				sb.WriteString("U")
			} else {
				sb.WriteString(o.Batch)
			}
		case "sub-empty":
			sb.WriteString("e")
		case "sub-foreign":
			sb.WriteString("f")
		case "next":
			sb.WriteString("n")
		case "restart":
			sb.WriteString("R")
		}
		if o.Crash != 0 {
			sb.WriteString("!" + strconv.Itoa(o.Crash))
		}
	}
	return sb.String()
}

// txsOf maps a batch name to its transactions (deterministic, injective on names).
func txsOf(name string) [][]byte {
	switch name {
	case "z":
		return [][]byte{[]byte("z")}
	case "a":
		return [][]byte{[]byte("a"), []byte("aa")}
	case "m":
		return [][]byte{[]byte("m"), {}, []byte("mmm")}
	}
	n, _ := strconv.Atoi(strings.TrimLeft(name, "uc-"))
	switch n % 3 {
	case 0:
		return [][]byte{[]byte(name)}
	case 1:
		return [][]byte{[]byte(name), []byte("x")}
	default:
		return [][]byte{[]byte(name), {}, []byte(name + name)}
	}
}

func contentKey(txs [][]byte) string {
	parts := make([]string, len(txs))
	for i, t := range txs {
		parts[i] = hex.EncodeToString(t)
	}
	return strings.Join(parts, ".")
}

func sameTxs(a, b [][]byte) bool {
	if len(a) != len(b) {
		return false
	}
	for i := range a {
		if !bytes.Equal(a[i], b[i]) {
			return false
		}
	}
	return true
}

// ---------------------------------------------------------------- generation

// predicted applies the conforming effect of op to every state (no filtering) and reports the
// trigger predicates evaluated at the restarts the op implies.
func predicted(S []*mstate, op Op, bound int) (out []*mstate, a, b bool) {
	switch op.Kind {
	case "sub":
		for _, s := range S {
			if op.Crash != crashNone {
				out = append(out, s)
			}
			out = append(out, effSub(s, op.Batch, bound))
		}
	case "next":
		for _, s := range S {
			if op.Crash != crashNone {
				out = append(out, s)
			}
			out = append(out, effNext(s)...)
		}
	case "restart":
		return stepRestart(S, false)
	default:
		out = S
	}
	out = dedupe(out)
	if op.Crash != crashNone {
		return stepRestart(out, false)
	}
	return out, false, false
}

// Triggers evaluates the trigger predicates of the two findings over a generated history.
func Triggers(h History) (a, b bool) {
	S := []*mstate{newLegacyState(h.Legacy)}
	for _, op := range h.Ops {
		var ta, tb bool
		S, ta, tb = predicted(S, op, h.Bound)
		a = a || ta
		b = b || tb
	}
	return
}

func genSeq(rng *rand.Rand, id int, region string) History {
	for attempt := 0; ; attempt++ {
		h := genSeqOnce(rng, id, region)
		a, b := Triggers(h)
		switch region {
		case "clean":
			if !a && !b {
				return h
			}
		case "content-hash-key":
			if a {
				return h
			}
			if attempt > 20 {
				h.Ops = append(h.Ops, Op{Kind: "sub", Batch: "z"}, Op{Kind: "sub", Batch: "z"}, Op{Kind: "restart"})
				if h.Bound == 1 {
					h.Bound = 2
				}
				if a, _ := Triggers(h); a {
					return h
				}
			}
		case "reload-order":
			if b && !a {
				return h
			}
		default:
			return h
		}
	}
}

func genSeqOnce(rng *rand.Rand, id int, region string) History {
	bounds := []int{1, 2, 5, 0}
	h := History{ID: id, Region: region, Bound: bounds[rng.Intn(len(bounds))]}
	if region != "clean" && h.Bound == 1 {
		h.Bound = []int{2, 5, 0}[rng.Intn(3)]
	}
	if region == "legacy" {
		// a database left behind by the older version: 1-3 records with distinct contents
		for i, n := 0, 1+rng.Intn(3); i < n; i++ {
			h.Legacy = append(h.Legacy, fmt.Sprintf("L%d", id*10+i))
		}
		if h.Bound > 0 && h.Bound < len(h.Legacy) {
			h.Bound = 5
		}
	}
	n := 20 + rng.Intn(61)
	alphabet := []string{"z", "a", "m"}
	pAlpha := 0 // percent of submissions drawn from the 3-batch alphabet
	switch region {
	case "clean":
		pAlpha = []int{0, 70, 90}[rng.Intn(3)]
	case "content-hash-key":
		pAlpha = 85
	case "legacy":
		pAlpha = []int{0, 60}[rng.Intn(2)]
	}
	pSub := 35 + rng.Intn(25)
	uniq := 0
	S := []*mstate{newLegacyState(h.Legacy)}
	restarts := 0 // restarts and crashes; bounded in the trigger regions to keep the model's state set small
	for len(h.Ops) < n {
		var op Op
		p := rng.Intn(100)
		switch {
		case p < pSub:
			op = Op{Kind: "sub"}
			if rng.Intn(100) < pAlpha {
				op.Batch = alphabet[rng.Intn(3)]
			} else {
				uniq++
				op.Batch = fmt.Sprintf("u%d", id*1000+uniq)
			}
		case p < pSub+6:
			op = Op{Kind: "sub-foreign", Batch: alphabet[rng.Intn(3)]}
		case p < pSub+10:
			op = Op{Kind: "sub-empty", Nil: rng.Intn(2) == 0}
		case p < pSub+20:
			op = Op{Kind: "restart"}
		default:
			op = Op{Kind: "next"}
		}
		if (op.Kind == "sub" || op.Kind == "next") && rng.Intn(100) < 12 {
			op.Crash = 1 + rng.Intn(maxCrashK)
		}
		if region != "clean" && (op.Kind == "restart" || op.Crash != 0) {
			if restarts >= 5 {
				op = Op{Kind: "next"}
			} else {
				restarts++
			}
		}
		S2, a, b := predicted(S, op, h.Bound)
		if region == "clean" && (a || b) {
			// a restart here would be a trigger point: drain instead
			op = Op{Kind: "next"}
			S2, _, _ = predicted(S, op, h.Bound)
		}
		if region == "reload-order" && a {
			op = Op{Kind: "next"}
			S2, _, _ = predicted(S, op, h.Bound)
		}
		if len(S2) > 64 {
			// keep the nondeterminism of crashes small: settle with a plain drain
			op = Op{Kind: "next"}
			S2, _, _ = predicted(S, op, h.Bound)
		}
		S = S2
		h.Ops = append(h.Ops, op)
	}
	return h
}

// directed returns the fixed small histories that are run in the trigger regions in addition to
// the generated ones (they are the smallest reproductions known).
func directed() []History {
	s := func(b string) Op { return Op{Kind: "sub", Batch: b} }
	nx := Op{Kind: "next"}
	rs := Op{Kind: "restart"}
	return []History{
		{ID: -1, Region: "content-hash-key", Bound: 0, Ops: []Op{s("z"), s("z"), rs, nx, nx}},
		{ID: -2, Region: "content-hash-key", Bound: 0, Ops: []Op{s("z"), s("z"), nx, rs, nx}},
		{ID: -3, Region: "content-hash-key", Bound: 0, Ops: []Op{s("z"), s("a"), s("z"), s("m"), nx, rs, nx, nx, nx}},
		{ID: -4, Region: "reload-order", Bound: 0, Ops: []Op{s("u1"), s("u2"), rs, nx, nx}},
		{ID: -5, Region: "reload-order", Bound: 0, Ops: []Op{s("u2"), s("u1"), rs, nx, nx}},
	}
}

// ---------------------------------------------------------------- execution against the real queue

var (
	outMu   sync.Mutex
	devNull *os.File
)

// quietly runs f while the process-wide stdout points at /dev/null. The real queue reports a
// failed durable delete with fmt.Printf; that happens on purpose in crash cases and must not
// pollute the check's output. All reporting of this package takes the same lock.
func quietly(f func()) {
	outMu.Lock()
	defer outMu.Unlock()
	if devNull == nil {
		devNull, _ = os.OpenFile(os.DevNull, os.O_WRONLY, 0)
	}
	if devNull == nil {
		f()
		return
	}
	saved := os.Stdout
	os.Stdout = devNull
	defer func() { os.Stdout = saved }()
	f()
}

func reporting(f func()) {
	outMu.Lock()
	defer outMu.Unlock()
	f()
}

var (
	seqLogger = logging.Logger("c10")
)

type proc struct {
	ds  *world.MemDS
	seq *single.Sequencer
	// held: the batches GetNextBatch handed out lately, as the consumer holds them (the very objects, not copies), with
	// their content at the moment of the return. A batch that was delivered is the consumer's: whatever the queue does
	// afterwards (accepting, handing out, compacting) must not change it under the consumer's hands.
	held   []heldBatch
	heldMu sync.Mutex
}

type heldBatch struct {
	b    *coresequencer.Batch
	key  string
	name string
}

// heldChanged reports the first handed-out batch whose content is no longer what GetNextBatch returned.
func (p *proc) heldChanged() string {
	p.heldMu.Lock()
	defer p.heldMu.Unlock()
	for _, h := range p.held {
		if now := contentKey(h.b.Transactions); now != h.key {
			return fmt.Sprintf("the batch %s that GetNextBatch handed out earlier changed in the consumer's hands after later calls on the sequencer (content key %s at the return, %s now): a delivered batch is replaced by another one", h.name, h.key, now)
		}
	}
	return ""
}

func startProc(im *world.Image, bound int) (*proc, error) {
	p, err := startProcY(im, bound, nil)
	return p, err
}

func startProcY(im *world.Image, bound int, yield func()) (*proc, error) {
	d := world.NewMemDS(im)
	d.Yield = yield
	p := &proc{ds: d}
	metrics, _ := single.NopMetrics()
	s, err := single.NewSequencerWithQueueSize(context.Background(), seqLogger, d, world.NewDADouble(), []byte(chainID), time.Hour, metrics, true, bound)
	if err != nil {
		return nil, err
	}
	p.seq = s
	return p, nil
}

// submit classifies the answer to a submission at the interface: accepted (no error) or rejected
// (any error: which error value or text a rejection carries is not the property's business; whether
// it carries the identity of single.ErrQueueFull is noted for the evidence).
func (p *proc) submit(id string, batch *coresequencer.Batch) Obs {
	_, err := p.seq.SubmitBatchTxs(context.Background(), coresequencer.SubmitBatchTxsRequest{Id: []byte(id), Batch: batch})
	if err == nil {
		return Obs{Kind: "ok"}
	}
	o := Obs{Kind: "rejected", Err: err.Error()}
	o.fullIdentity = errors.Is(err, single.ErrQueueFull)
	return o
}

func (p *proc) next(names map[string]string) Obs {
	if msg := p.heldChanged(); msg != "" {
		return Obs{Kind: "err", Err: msg}
	}
	resp, err := p.seq.GetNextBatch(context.Background(), coresequencer.GetNextBatchRequest{Id: []byte(chainID)})
	if err != nil {
		return Obs{Kind: "err", Err: err.Error()}
	}
	if msg := p.heldChanged(); msg != "" {
		return Obs{Kind: "err", Err: msg}
	}
	if resp == nil || resp.Batch == nil || len(resp.Batch.Transactions) == 0 {
		return Obs{Kind: "empty"}
	}
	ck := contentKey(resp.Batch.Transactions)
	p.heldMu.Lock()
	p.held = append(p.held, heldBatch{b: resp.Batch, key: ck, name: names[ck]})
	if len(p.held) > 4 {
		p.held = p.held[len(p.held)-4:]
	}
	p.heldMu.Unlock()
	if n, ok := names[ck]; ok {
		return Obs{Kind: "batch", Batch: n}
	}
	return Obs{Kind: "batch", Batch: "?unknown-content:" + ck}
}

// drainOf starts a sequencer over a copy of the image and takes batches until the queue stays
// empty: what a process restarted on this image would hand out.
func drainOf(im *world.Image, bound int, names map[string]string) ([]string, error) {
	p, err := startProc(im.Clone(), bound)
	if err != nil {
		return nil, err
	}
	var out []string
	empties := 0
	for i := 0; i < 4096 && empties < 2; i++ {
		o := p.next(names)
		switch o.Kind {
		case "batch":
			for ; empties > 0; empties-- {
				out = append(out, emptyName)
			}
			out = append(out, o.Batch)
		case "empty":
			empties++
		default:
			return out, errors.New("GetNextBatch: " + o.Err)
		}
	}
	return out, nil
}

// writeLegacy puts the records the version before the sequence-numbered keys would have left for
// these batches into the image: key = hex(content hash) under the queue's prefix, value = the
// protobuf batch.
func writeLegacy(im *world.Image, names []string) error {
	d := world.NewMemDS(im)
	for _, n := range names {
		b := coresequencer.Batch{Transactions: txsOf(n)}
		h, err := b.Hash()
		if err != nil {
			return err
		}
		val, err := proto.Marshal(&pb.Batch{Txs: b.Transactions})
		if err != nil {
			return err
		}
		if err := d.Put(context.Background(), ds.NewKey(legacyPrefix+"/"+hex.EncodeToString(h)), val); err != nil {
			return err
		}
	}
	return nil
}

// Step is one executed operation with what was observed.
type Step struct {
	I      int    `json:"i"`
	Op     string `json:"op"`
	Obs    string `json:"observed"`
	Keys   int    `json:"keys_in_database"`
	States string `json:"model_after,omitempty"`
}

// Verdict is the judgement of one executed history.
type Verdict struct {
	Kind    string   `json:"verdict"` // pass | finding | violation | inconclusive
	Clause  string   `json:"clause,omitempty"`
	IDs     []string `json:"finding_ids,omitempty"`
	Detail  string   `json:"detail,omitempty"`
	At      int      `json:"at_op"`
	Trace   []Step   `json:"trace"`
	TrigA   bool     `json:"trigger_content_hash_key"`
	TrigB   bool     `json:"trigger_reload_order"`
	hits    map[string]int64
	counts  map[string]int64
	nReject int
	nRest   int
	nCrash  int
}

func (v *Verdict) hit(c string)   { v.hits[c]++ }
func (v *Verdict) count(c string) { v.counts[c]++ }

func sameImage(a, b map[string][]byte) bool {
	if len(a) != len(b) {
		return false
	}
	for k, v := range a {
		if w, ok := b[k]; !ok || !bytes.Equal(w, v) {
			return false
		}
	}
	return true
}

// Judge executes the history against the real single sequencer and judges it with the model.
func Judge(h History) *Verdict {
	return judgeBody(&h, nil, 0)
}

// judgeGen is Judge for a history that is generated while it is executed: the operations after
// h.Ops are asked from gen, which sees the model's current set of possible states (so a workload
// can steer by what the queue really holds), until nAccept submissions have been accepted (or
// 8*nAccept operations executed). The history as executed is returned: Judge on it repeats the run.
func judgeGen(h History, gen func(S []*mstate) Op, nAccept int) (*Verdict, History) {
	v := judgeBody(&h, gen, nAccept)
	return v, h
}

func judgeBody(hp *History, gen func(S []*mstate) Op, nAccept int) *Verdict {
	h := *hp
	v := &Verdict{Kind: "pass", At: -1, hits: map[string]int64{}, counts: map[string]int64{}}
	im := world.NewImage()
	if len(h.Legacy) > 0 {
		if err := writeLegacy(im, h.Legacy); err != nil {
			v.Kind, v.Detail = "inconclusive", "cannot build the legacy records: "+err.Error()
			return v
		}
	}
	p, err := startProc(im, h.Bound)
	if err != nil {
		v.Kind, v.Clause, v.Detail = "violation", "startup", "sequencer does not start on the initial datastore: "+err.Error()
		return v
	}
	names := map[string]string{}
	for _, op := range h.Ops {
		if op.Batch != "" {
			names[contentKey(txsOf(op.Batch))] = op.Batch
		}
	}
	for _, n := range h.Legacy {
		names[contentKey(txsOf(n))] = n
	}
	S := []*mstate{newLegacyState(h.Legacy)}
	// the predicted deviations of the two recorded findings are only forked in histories without
	// legacy records (there the unknown order of the first batches is legitimate, nothing else is)
	// (nor in long histories: they are judged by the plain model)
	tolerate := len(h.Legacy) == 0 && h.Region != regionLong
	fail := func(i int, clause, detail string) *Verdict {
		v.Kind, v.Clause, v.Detail, v.At = "violation", clause, detail, i
		return v
	}
	restart := func() error {
		p.ds.CrashNow() // the old process can have no further effect
		np, err := startProc(im, h.Bound)
		if err != nil {
			return err
		}
		p = np
		return nil
	}
	doRestart := func(i int) *Verdict {
		if maxLen(S) >= 1 {
			v.hit("restart-continuity")
		}
		if minLen(S) >= 2 {
			v.count("restarts_with_2_or_more_batches_pending")
		}
		if err := restart(); err != nil {
			return fail(i, "restart", "a new sequencer over the same datastore does not start: "+err.Error())
		}
		var a, b bool
		S, a, b = stepRestart(S, tolerate)
		v.TrigA = v.TrigA || a
		v.TrigB = v.TrigB || b
		v.nRest++
		return nil
	}
	record := func(i int, op Op, o Obs) {
		st := Step{I: i, Op: op.String(), Obs: o.String(), Keys: len(im.Keys(""))}
		if len(S) <= 4 {
			st.States = describeStates(S)
		} else {
			st.States = fmt.Sprintf("%d possible states", len(S))
		}
		v.Trace = append(v.Trace, st)
	}
	// noTrace: a rejected submission leaves no trace = a sequencer restarted on the database as it is
	// after the rejected call hands out exactly what one restarted on the database as it was before
	// the call hands out. (Byte-identical databases trivially do; that is counted for the evidence.)
	noTrace := func(i int, op Op, o Obs, before *world.Image, what string) *Verdict {
		v.hit("no-trace")
		if sameImage(before.Snapshot(), im.Snapshot()) {
			v.count("rejected_submission_database_byte_identical")
			return nil
		}
		v.count("rejected_submission_database_bytes_changed")
		was, err1 := drainOf(before, h.Bound, names)
		is, err2 := drainOf(im, h.Bound, names)
		if err1 != nil || err2 != nil {
			record(i, op, o)
			return fail(i, "restart", fmt.Sprintf("a sequencer over a copy of the datastore fails: %v / %v", err1, err2))
		}
		if strings.Join(was, ",") != strings.Join(is, ",") {
			record(i, op, o)
			return fail(i, "no-trace", fmt.Sprintf("%s, but it left a trace: a sequencer restarted on the database as it was before the call hands out [%s], one restarted on the database after the call hands out [%s]", what, strings.Join(was, " "), strings.Join(is, " ")))
		}
		return nil
	}
	exec := func(i int, op Op) *Verdict {
		prev := S
		var o Obs
		died := false
		w0 := p.ds.Writes()
		arm := func() {
			if op.Crash != crashNone {
				p.ds.CrashAfter(op.Crash - 1)
			}
		}
		switch op.Kind {
		case "sub", "sub-empty", "sub-foreign":
			id := chainID
			var b *coresequencer.Batch
			switch op.Kind {
			case "sub":
				b = &coresequencer.Batch{Transactions: txsOf(op.Batch)}
			case "sub-foreign":
				id = foreignID
				b = &coresequencer.Batch{Transactions: txsOf(op.Batch)}
			case "sub-empty":
				if !op.Nil {
					b = &coresequencer.Batch{}
				}
			}
			before := im.Clone()
			arm()
			o = p.submit(id, b)
			if died = p.ds.Crashed(); died {
				// the process died inside the operation: nobody saw the answer; the submission is in or out
				o = Obs{Kind: "cut"}
				v.nCrash++
				v.hit("crash-atomicity")
				v.count(fmt.Sprintf("crash_inside_submit_at_write_%d", op.Crash))
				var S2 []*mstate
				for _, s := range S {
					S2 = append(S2, s, effSub(s, op.Batch, h.Bound))
				}
				S = dedupe(S2)
				break
			}
			switch op.Kind {
			case "sub":
				v.hit("fifo-model")
				if h.Bound > 0 {
					v.hit("bound")
				}
				if o.Kind == "rejected" {
					v.nReject++
					if o.fullIdentity {
						v.count("rejections_carrying_ErrQueueFull")
					} else {
						v.count("rejections_with_another_error")
					}
				}
				if o.Kind == "ok" {
					v.counts["max_accepted_submissions_in_one_history"]++
				}
				S = stepSub(S, op.Batch, h.Bound, o)
				if len(S) == 0 {
					record(i, op, o)
					if o.Kind == "ok" {
						return fail(i, "bound", fmt.Sprintf("submission of %s was accepted although %d batches accepted earlier have not been handed out yet and the bound is %d - or a batch accepted earlier has been lost (possible states before: %s)", op.Batch, h.Bound, h.Bound, describeStates(prev)))
					}
					return fail(i, "admission", fmt.Sprintf("submission of %s for the own chain id was refused (%s) although fewer batches than the bound (%d) are waiting in every possible state: %s", op.Batch, o.Err, h.Bound, describeStates(prev)))
				}
				if o.Kind == "rejected" {
					if r := noTrace(i, op, o, before, fmt.Sprintf("submission of %s was rejected (%s)", op.Batch, o.Err)); r != nil {
						return r
					}
				}
			case "sub-foreign":
				v.nReject++
				v.hit("foreign-rejected")
				if o.Kind == "ok" {
					record(i, op, o)
					return fail(i, "foreign-rejected", fmt.Sprintf("a submission for foreign chain id %q was accepted", foreignID))
				}
				if r := noTrace(i, op, o, before, "a submission with a foreign chain id was rejected"); r != nil {
					return r
				}
			case "sub-empty":
				// ignored, refused, or queued and handed out once in order: all fine
				v.hit("empty-submission")
				if o.Kind == "ok" {
					S = stepSubEmpty(S, h.Bound, op.Nil)
				}
				if !sameImage(before.Snapshot(), im.Snapshot()) {
					v.count("empty_submission_changed_the_database")
				}
			}
		case "next":
			arm()
			if op.Crash != crashNone {
				quietly(func() { o = p.next(names) })
			} else {
				o = p.next(names)
			}
			if died = p.ds.Crashed(); died {
				o = Obs{Kind: "cut"}
				v.nCrash++
				v.hit("crash-atomicity")
				v.count(fmt.Sprintf("crash_inside_next_at_write_%d", op.Crash))
				var S2 []*mstate
				for _, s := range S {
					S2 = append(S2, s)
					S2 = append(S2, effNext(s)...)
				}
				S = dedupe(S2)
				break
			}
			v.hit("fifo-model")
			if o.Kind == "err" {
				record(i, op, o)
				return fail(i, "fifo-model", "GetNextBatch failed: "+o.Err)
			}
			if o.Kind == "batch" {
				v.hit("delivery")
			}
			S = stepNext(S, o)
		case "restart":
			o = Obs{Kind: "restarted"}
			if r := doRestart(i); r != nil {
				record(i, op, Obs{Kind: "restart-failed", Err: r.Detail})
				return r
			}
		}
		if n := p.ds.Writes() - w0; op.Kind != "restart" && int64(n) > v.counts["max_durable_writes_in_one_operation"] {
			v.counts["max_durable_writes_in_one_operation"] = int64(n)
		}
		if len(S) == 0 {
			record(i, op, o)
			return fail(i, "fifo-model", fmt.Sprintf("operation %d (%s) returned %s; the bounded FIFO model allows that in none of its possible states: %s", i, op, o, describeStates(prev)))
		}
		if op.Crash != crashNone && op.Kind != "restart" {
			if !died {
				v.nCrash++
				v.count("crash_right_after_operation")
			}
			if r := doRestart(i); r != nil {
				record(i, op, o)
				return r
			}
		}
		record(i, op, o)
		if k := int64(len(im.Keys(""))); k > v.counts["max_keys_in_database"] {
			v.counts["max_keys_in_database"] = k
		}
		if len(S) > maxStateSet {
			v.Kind, v.Detail, v.At = "inconclusive", "state set of the model grew beyond the cap", i
			return v
		}
		return nil
	}
	i := 0
	for ; i < len(h.Ops) || (gen != nil && v.counts["max_accepted_submissions_in_one_history"] < int64(nAccept) && i < 8*nAccept); i++ {
		if i >= len(h.Ops) {
			op := gen(S)
			if op.Batch != "" {
				names[contentKey(txsOf(op.Batch))] = op.Batch
			}
			h.Ops = append(h.Ops, op)
			hp.Ops = h.Ops
		}
		if r := exec(i, h.Ops[i]); r != nil {
			return r
		}
	}
	// drain: everything accepted and not yet handed out must come out now, once, in order
	for d := maxLen(S) + 2; d > 0; d-- {
		if r := exec(i, Op{Kind: "next"}); r != nil {
			return r
		}
		i++
		if maxLen(S) == 0 {
			break
		}
	}
	if maxLen(S) != 0 {
		return fail(i, "fifo-model", "drain did not empty the model: "+describeStates(S))
	}
	v.hit("drained")
	// after the drain a restart must not bring anything back
	if r := exec(i, Op{Kind: "restart"}); r != nil {
		return r
	}
	if r := exec(i+1, Op{Kind: "next"}); r != nil {
		return r
	}
	v.hit("no-reappearance")
	if len(h.Legacy) > 0 {
		v.hit("legacy-records-first")
	}
	best := bestState(S)
	if best.loss || best.perm {
		v.Kind = "finding"
		v.At = len(v.Trace) - 1
		if best.loss {
			v.IDs = append(v.IDs, "C10-content-hash-key")
		}
		if best.perm {
			v.IDs = append(v.IDs, "C10-reload-order")
		}
		v.Clause = "fifo-model"
		v.Detail = "outputs differ from the bounded FIFO exactly as predicted: " + strings.Join(best.notes, "; ")
	}
	return v
}

// shrink removes operations (and unneeded crashes) as long as keep(verdict) stays true.
func shrink(h History, keep func(*Verdict) bool) History {
	if !keep(Judge(h)) {
		return h
	}
	for changed := true; changed; {
		changed = false
		for i := len(h.Ops) - 1; i >= 0; i-- {
			c := h
			c.Ops = append(append([]Op(nil), h.Ops[:i]...), h.Ops[i+1:]...)
			if keep(Judge(c)) {
				h = c
				changed = true
			}
		}
		for i := range h.Ops {
			if h.Ops[i].Crash != 0 {
				c := h
				c.Ops = append([]Op(nil), h.Ops...)
				c.Ops[i].Crash = 0
				if keep(Judge(c)) {
					h = c
					changed = true
				}
			}
		}
	}
	return h
}

func sameVerdict(v *Verdict) func(*Verdict) bool {
	want := v.Kind + "/" + v.Clause
	return func(w *Verdict) bool { return w.Kind+"/"+w.Clause == want }
}

func onlyFinding(id string) func(*Verdict) bool {
	return func(w *Verdict) bool { return w.Kind == "finding" && len(w.IDs) == 1 && w.IDs[0] == id }
}

func hasFinding(id string) func(*Verdict) bool {
	return func(w *Verdict) bool {
		if w.Kind != "finding" {
			return false
		}
		for _, x := range w.IDs {
			if x == id {
				return true
			}
		}
		return false
	}
}
