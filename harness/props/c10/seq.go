package c10

import (
	"bytes"
	"context"
	"encoding/hex"
	"errors"
	"fmt"
	"math/rand"
	"os"
	"strconv"
	"strings"
	"sync"
	"time"

	logging "github.com/ipfs/go-log/v2"

	coresequencer "github.com/evstack/ev-node/core/sequencer"
	"github.com/evstack/ev-node/sequencers/single"

	"verifharness/world"
)

const (
	chainID      = "c10-chain"
	foreignID    = "c10-other-chain"
	queuePrefix  = "/batches"
	maxStateSet  = 2048
	crashNone    = 0
	crashCut     = 1 // CrashAfter(0): the durable write of the operation is lost, the process dies inside the operation
	crashAfterOp = 2 // CrashAfter(1): the write lands, the operation returns, the process dies before its next write
)

// Op is one operation of a sequential history.
type Op struct {
	Kind  string `json:"kind"`            // sub | sub-empty | sub-foreign | next | restart
	Batch string `json:"batch,omitempty"` // batch name: z a m (alphabet) or u<n> (unique)
	Nil   bool   `json:"nil_batch,omitempty"`
	Crash int    `json:"crash,omitempty"` // on sub/next: 1 = cut by a crash (write lost), 2 = crash right after
}

func (o Op) String() string {
	s := o.Kind
	if o.Batch != "" {
		s += " " + o.Batch
	}
	if o.Nil {
		s += "(nil)"
	}
	switch o.Crash {
	case crashCut:
		s += " !crash-inside"
	case crashAfterOp:
		s += " !crash-after"
	}
	return s
}

// History is one generated sequential case.
type History struct {
	ID     int    `json:"id"`
	Region string `json:"region"` // clean | content-hash-key | reload-order (how it was generated)
	Bound  int    `json:"queue_bound"`
	Ops    []Op   `json:"ops"`
}

func (h History) kinds() string {
	var sb strings.Builder
	fmt.Fprintf(&sb, "b%d:", h.Bound)
	for _, o := range h.Ops {
		switch o.Kind {
		case "sub":
			if strings.HasPrefix(o.Batch, "u") {
				sb.WriteString("U")
			} else {
				sb.WriteString(o.Batch)
			}
		case "sub-empty":
			sb.WriteString("e")
		case "sub-foreign":
			sb.WriteString("f")
		case "next":
			sb.WriteString("n")
		case "restart":
			sb.WriteString("R")
		}
		if o.Crash != 0 {
			sb.WriteString("!" + strconv.Itoa(o.Crash))
		}
	}
	return sb.String()
}

// txsOf maps a batch name to its transactions (deterministic, injective on names).
func txsOf(name string) [][]byte {
	switch name {
	case "z":
		return [][]byte{[]byte("z")}
	case "a":
		return [][]byte{[]byte("a"), []byte("aa")}
	case "m":
		return [][]byte{[]byte("m"), {}, []byte("mmm")}
	}
	n, _ := strconv.Atoi(strings.TrimLeft(name, "uc-"))
	switch n % 3 {
	case 0:
		return [][]byte{[]byte(name)}
	case 1:
		return [][]byte{[]byte(name), []byte("x")}
	default:
		return [][]byte{[]byte(name), {}, []byte(name + name)}
	}
}

func contentKey(txs [][]byte) string {
	parts := make([]string, len(txs))
	for i, t := range txs {
		parts[i] = hex.EncodeToString(t)
	}
	return strings.Join(parts, ".")
}

func sameTxs(a, b [][]byte) bool {
	if len(a) != len(b) {
		return false
	}
	for i := range a {
		if !bytes.Equal(a[i], b[i]) {
			return false
		}
	}
	return true
}

// ---------------------------------------------------------------- generation

// predicted applies the conforming effect of op to every state (no filtering) and reports the
// trigger predicates evaluated at the restarts the op implies.
func predicted(S []*mstate, op Op, bound int) (out []*mstate, a, b bool) {
	switch op.Kind {
	case "sub":
		for _, s := range S {
			if op.Crash == crashCut {
				out = append(out, s)
			}
			out = append(out, effSub(s, op.Batch, bound))
		}
	case "next":
		for _, s := range S {
			if op.Crash == crashCut {
				out = append(out, s)
			}
			out = append(out, effNext(s)...)
		}
	case "restart":
		return stepRestart(S, false)
	default:
		out = S
	}
	out = dedupe(out)
	if op.Crash != crashNone {
		return stepRestart(out, false)
	}
	return out, false, false
}

// Triggers evaluates the trigger predicates of the two findings over a generated history.
func Triggers(h History) (a, b bool) {
	S := []*mstate{newState()}
	for _, op := range h.Ops {
		var ta, tb bool
		S, ta, tb = predicted(S, op, h.Bound)
		a = a || ta
		b = b || tb
	}
	return
}

func genSeq(rng *rand.Rand, id int, region string) History {
	for attempt := 0; ; attempt++ {
		h := genSeqOnce(rng, id, region)
		a, b := Triggers(h)
		switch region {
		case "clean":
			if !a && !b {
				return h
			}
		case "content-hash-key":
			if a {
				return h
			}
			if attempt > 20 {
				h.Ops = append(h.Ops, Op{Kind: "sub", Batch: "z"}, Op{Kind: "sub", Batch: "z"}, Op{Kind: "restart"})
				if h.Bound == 1 {
					h.Bound = 2
				}
				if a, _ := Triggers(h); a {
					return h
				}
			}
		case "reload-order":
			if b && !a {
				return h
			}
		}
	}
}

func genSeqOnce(rng *rand.Rand, id int, region string) History {
	bounds := []int{1, 2, 5, 0}
	h := History{ID: id, Region: region, Bound: bounds[rng.Intn(len(bounds))]}
	if region != "clean" && h.Bound == 1 {
		h.Bound = []int{2, 5, 0}[rng.Intn(3)]
	}
	n := 20 + rng.Intn(61)
	alphabet := []string{"z", "a", "m"}
	pAlpha := 0 // percent of submissions drawn from the 3-batch alphabet
	switch region {
	case "clean":
		pAlpha = []int{0, 70, 90}[rng.Intn(3)]
	case "content-hash-key":
		pAlpha = 85
	}
	pSub := 35 + rng.Intn(25)
	uniq := 0
	S := []*mstate{newState()}
	restarts := 0 // restarts and crashes; bounded in the trigger regions to keep the model's state set small
	for len(h.Ops) < n {
		var op Op
		p := rng.Intn(100)
		switch {
		case p < pSub:
			op = Op{Kind: "sub"}
			if rng.Intn(100) < pAlpha {
				op.Batch = alphabet[rng.Intn(3)]
			} else {
				uniq++
				op.Batch = fmt.Sprintf("u%d", id*1000+uniq)
			}
		case p < pSub+6:
			op = Op{Kind: "sub-foreign", Batch: alphabet[rng.Intn(3)]}
		case p < pSub+10:
			op = Op{Kind: "sub-empty", Nil: rng.Intn(2) == 0}
		case p < pSub+20:
			op = Op{Kind: "restart"}
		default:
			op = Op{Kind: "next"}
		}
		if (op.Kind == "sub" || op.Kind == "next") && rng.Intn(100) < 10 {
			op.Crash = 1 + rng.Intn(2)
		}
		if region != "clean" && (op.Kind == "restart" || op.Crash != 0) {
			if restarts >= 5 {
				op = Op{Kind: "next"}
			} else {
				restarts++
			}
		}
		S2, a, b := predicted(S, op, h.Bound)
		if region == "clean" && (a || b) {
			// a restart here would be a trigger point: drain instead
			op = Op{Kind: "next"}
			S2, _, _ = predicted(S, op, h.Bound)
		}
		if region == "reload-order" && a {
			op = Op{Kind: "next"}
			S2, _, _ = predicted(S, op, h.Bound)
		}
		if len(S2) > 64 {
			// keep the nondeterminism of crashes small: settle with a plain drain
			op = Op{Kind: "next"}
			S2, _, _ = predicted(S, op, h.Bound)
		}
		S = S2
		h.Ops = append(h.Ops, op)
	}
	return h
}

// directed returns the fixed small histories that are run in the trigger regions in addition to
// the generated ones (they are the smallest reproductions known).
func directed() []History {
	s := func(b string) Op { return Op{Kind: "sub", Batch: b} }
	nx := Op{Kind: "next"}
	rs := Op{Kind: "restart"}
	return []History{
		{ID: -1, Region: "content-hash-key", Bound: 0, Ops: []Op{s("z"), s("z"), rs, nx, nx}},
		{ID: -2, Region: "content-hash-key", Bound: 0, Ops: []Op{s("z"), s("z"), nx, rs, nx}},
		{ID: -3, Region: "content-hash-key", Bound: 0, Ops: []Op{s("z"), s("a"), s("z"), s("m"), nx, rs, nx, nx, nx}},
		{ID: -4, Region: "reload-order", Bound: 0, Ops: []Op{s("u1"), s("u2"), rs, nx, nx}},
		{ID: -5, Region: "reload-order", Bound: 0, Ops: []Op{s("u2"), s("u1"), rs, nx, nx}},
	}
}

// ---------------------------------------------------------------- execution against the real queue

var (
	outMu   sync.Mutex
	devNull *os.File
)

// quietly runs f while the process-wide stdout points at /dev/null. The real queue reports a
// failed durable delete with fmt.Printf; that happens on purpose in crash cases and must not
// pollute the check's output. All reporting of this package takes the same lock.
func quietly(f func()) {
	outMu.Lock()
	defer outMu.Unlock()
	if devNull == nil {
		devNull, _ = os.OpenFile(os.DevNull, os.O_WRONLY, 0)
	}
	if devNull == nil {
		f()
		return
	}
	saved := os.Stdout
	os.Stdout = devNull
	defer func() { os.Stdout = saved }()
	f()
}

func reporting(f func()) {
	outMu.Lock()
	defer outMu.Unlock()
	f()
}

var (
	seqLogger = logging.Logger("c10")
)

type proc struct {
	ds  *world.MemDS
	seq *single.Sequencer
	mu  sync.Mutex
	out string // first key written outside the queue prefix
}

func (p *proc) outside() string {
	p.mu.Lock()
	defer p.mu.Unlock()
	return p.out
}

func startProc(im *world.Image, bound int) (*proc, error) {
	p, err := startProcY(im, bound, nil)
	return p, err
}

func startProcY(im *world.Image, bound int, yield func()) (*proc, error) {
	d := world.NewMemDS(im)
	d.Yield = yield
	p := &proc{ds: d}
	d.OnWrite = func(w world.WriteRec) {
		for _, k := range w.Keys {
			if !strings.HasPrefix(k, queuePrefix+"/") {
				p.mu.Lock()
				if p.out == "" {
					p.out = k
				}
				p.mu.Unlock()
			}
		}
	}
	metrics, _ := single.NopMetrics()
	s, err := single.NewSequencerWithQueueSize(context.Background(), seqLogger, d, world.NewDADouble(), []byte(chainID), time.Hour, metrics, true, bound)
	if err != nil {
		return nil, err
	}
	p.seq = s
	return p, nil
}

func (p *proc) submit(id string, batch *coresequencer.Batch) Obs {
	_, err := p.seq.SubmitBatchTxs(context.Background(), coresequencer.SubmitBatchTxsRequest{Id: []byte(id), Batch: batch})
	switch {
	case err == nil:
		return Obs{Kind: "ok"}
	case errors.Is(err, single.ErrQueueFull):
		return Obs{Kind: "full"}
	case errors.Is(err, single.ErrInvalidId):
		return Obs{Kind: "invalid-id"}
	}
	return Obs{Kind: "err", Err: err.Error()}
}

func (p *proc) next(names map[string]string) Obs {
	resp, err := p.seq.GetNextBatch(context.Background(), coresequencer.GetNextBatchRequest{Id: []byte(chainID)})
	if err != nil {
		return Obs{Kind: "err", Err: err.Error()}
	}
	if resp == nil || resp.Batch == nil || len(resp.Batch.Transactions) == 0 {
		return Obs{Kind: "empty"}
	}
	ck := contentKey(resp.Batch.Transactions)
	if n, ok := names[ck]; ok {
		return Obs{Kind: "batch", Batch: n}
	}
	return Obs{Kind: "batch", Batch: "?unknown-content:" + ck}
}

// Step is one executed operation with what was observed.
type Step struct {
	I      int    `json:"i"`
	Op     string `json:"op"`
	Obs    string `json:"observed"`
	Keys   int    `json:"keys_under_prefix"`
	States string `json:"model_after,omitempty"`
}

// Verdict is the judgement of one executed history.
type Verdict struct {
	Kind    string   `json:"verdict"` // pass | finding | violation | inconclusive
	Clause  string   `json:"clause,omitempty"`
	IDs     []string `json:"finding_ids,omitempty"`
	Detail  string   `json:"detail,omitempty"`
	At      int      `json:"at_op"`
	Trace   []Step   `json:"trace"`
	TrigA   bool     `json:"trigger_content_hash_key"`
	TrigB   bool     `json:"trigger_reload_order"`
	hits    map[string]int64
	nReject int
	nRest   int
	nCrash  int
}

func (v *Verdict) hit(c string) { v.hits[c]++ }

func imageUnder(im *world.Image, prefix string) map[string]string {
	out := map[string]string{}
	for k, val := range im.Snapshot() {
		if strings.HasPrefix(k, prefix) {
			out[k] = string(val)
		}
	}
	return out
}

func sameImage(a, b map[string]string) bool {
	if len(a) != len(b) {
		return false
	}
	for k, v := range a {
		if w, ok := b[k]; !ok || w != v {
			return false
		}
	}
	return true
}

// Judge executes the history against the real single sequencer and judges it with the model.
func Judge(h History) *Verdict {
	v := &Verdict{Kind: "pass", At: -1, hits: map[string]int64{}}
	im := world.NewImage()
	p, err := startProc(im, h.Bound)
	if err != nil {
		v.Kind, v.Clause, v.Detail = "violation", "startup", "sequencer does not start on an empty datastore: "+err.Error()
		return v
	}
	names := map[string]string{}
	for _, op := range h.Ops {
		if op.Batch != "" {
			names[contentKey(txsOf(op.Batch))] = op.Batch
		}
	}
	S := []*mstate{newState()}
	fail := func(i int, clause, detail string) *Verdict {
		v.Kind, v.Clause, v.Detail, v.At = "violation", clause, detail, i
		return v
	}
	restart := func() error {
		p.ds.CrashNow() // the old process can have no further effect
		np, err := startProc(im, h.Bound)
		if err != nil {
			return err
		}
		p = np
		return nil
	}
	doRestart := func(i int) *Verdict {
		before := S
		if maxLen(S) >= 1 {
			v.hit("restart-continuity")
		}
		if err := restart(); err != nil {
			return fail(i, "restart", "a new sequencer over the same datastore does not start: "+err.Error())
		}
		var a, b bool
		S, a, b = stepRestart(S, true)
		v.TrigA = v.TrigA || a
		v.TrigB = v.TrigB || b
		v.nRest++
		_ = before
		return nil
	}
	record := func(i int, op Op, o Obs) {
		st := Step{I: i, Op: op.String(), Obs: o.String(), Keys: len(im.Keys(queuePrefix))}
		if len(S) <= 4 {
			st.States = describeStates(S)
		} else {
			st.States = fmt.Sprintf("%d possible states", len(S))
		}
		v.Trace = append(v.Trace, st)
	}
	exec := func(i int, op Op) *Verdict {
		before := imageUnder(im, "")
		prev := S
		var o Obs
		switch op.Kind {
		case "sub", "sub-empty", "sub-foreign":
			id := chainID
			var b *coresequencer.Batch
			switch op.Kind {
			case "sub":
				b = &coresequencer.Batch{Transactions: txsOf(op.Batch)}
			case "sub-foreign":
				id = foreignID
				b = &coresequencer.Batch{Transactions: txsOf(op.Batch)}
			case "sub-empty":
				if !op.Nil {
					b = &coresequencer.Batch{}
				}
			}
			if op.Crash == crashCut && op.Kind == "sub" {
				p.ds.CrashAfter(0)
				_ = p.submit(id, b)
				o = Obs{Kind: "cut"}
				v.nCrash++
				v.hit("crash-atomicity")
				var S2 []*mstate
				for _, s := range S {
					S2 = append(S2, s, effSub(s, op.Batch, h.Bound))
				}
				S = dedupe(S2)
			} else {
				o = p.submit(id, b)
				after := imageUnder(im, "")
				switch op.Kind {
				case "sub":
					v.hit("fifo-model")
					if o.Kind == "err" || o.Kind == "invalid-id" {
						record(i, op, o)
						return fail(i, "admission", fmt.Sprintf("submission of %s for the own chain id failed with %s", op.Batch, o))
					}
					if o.Kind == "full" {
						v.nReject++
						v.hit("no-trace")
						if !sameImage(before, after) {
							record(i, op, o)
							return fail(i, "no-trace", fmt.Sprintf("submission of %s was rejected (queue full) but the key space changed: %d -> %d keys", op.Batch, len(before), len(after)))
						}
					}
					S = stepSub(S, op.Batch, h.Bound, o)
				case "sub-foreign":
					v.nReject++
					v.hit("no-trace")
					v.hit("foreign-rejected")
					if o.Kind == "ok" {
						record(i, op, o)
						return fail(i, "foreign-rejected", fmt.Sprintf("a submission for foreign chain id %q was accepted", foreignID))
					}
					if !sameImage(before, after) {
						record(i, op, o)
						return fail(i, "no-trace", "a submission with a foreign chain id changed the key space")
					}
				case "sub-empty":
					v.hit("no-trace")
					if !sameImage(before, after) {
						record(i, op, o)
						return fail(i, "no-trace", "an empty submission changed the key space")
					}
				}
			}
		case "next":
			if op.Crash == crashCut {
				p.ds.CrashAfter(0)
				quietly(func() { _ = p.next(names) })
				o = Obs{Kind: "cut"}
				v.nCrash++
				v.hit("crash-atomicity")
				var S2 []*mstate
				for _, s := range S {
					S2 = append(S2, s)
					S2 = append(S2, effNext(s)...)
				}
				S = dedupe(S2)
			} else {
				o = p.next(names)
				v.hit("fifo-model")
				if o.Kind == "err" {
					record(i, op, o)
					return fail(i, "fifo-model", "GetNextBatch failed: "+o.Err)
				}
				if o.Kind == "batch" {
					v.hit("delivery")
				}
				S = stepNext(S, o)
			}
		case "restart":
			o = Obs{Kind: "restarted"}
			if r := doRestart(i); r != nil {
				record(i, op, Obs{Kind: "restart-failed", Err: r.Detail})
				return r
			}
		}
		if len(S) == 0 {
			record(i, op, o)
			clause := "fifo-model"
			return fail(i, clause, fmt.Sprintf("operation %d (%s) returned %s; the bounded FIFO model allows that in none of its possible states: %s", i, op, o, describeStates(prev)))
		}
		if op.Crash != crashNone && op.Kind != "restart" {
			if op.Crash == crashAfterOp {
				v.nCrash++
			}
			if r := doRestart(i); r != nil {
				record(i, op, o)
				return r
			}
		}
		record(i, op, o)
		// queue bound, seen at the property's own observation point (the durable key space)
		if h.Bound > 0 {
			v.hit("bound")
			if k := len(im.Keys(queuePrefix)); k > h.Bound {
				return fail(i, "bound", fmt.Sprintf("%d batches are stored under the queue prefix, the bound is %d", k, h.Bound))
			}
		}
		if k := p.outside(); k != "" {
			return fail(i, "no-trace", "the queue wrote outside its prefix: "+k)
		}
		if len(S) > maxStateSet {
			v.Kind, v.Detail, v.At = "inconclusive", "state set of the model grew beyond the cap", i
			return v
		}
		return nil
	}
	i := 0
	for ; i < len(h.Ops); i++ {
		if r := exec(i, h.Ops[i]); r != nil {
			return r
		}
	}
	// drain: everything accepted and not yet handed out must come out now, once, in order
	for d := maxLen(S) + 2; d > 0; d-- {
		if r := exec(i, Op{Kind: "next"}); r != nil {
			return r
		}
		i++
		if maxLen(S) == 0 {
			break
		}
	}
	if maxLen(S) != 0 {
		return fail(i, "fifo-model", "drain did not empty the model: "+describeStates(S))
	}
	v.hit("drained")
	// after the drain a restart must not bring anything back
	if r := exec(i, Op{Kind: "restart"}); r != nil {
		return r
	}
	if r := exec(i+1, Op{Kind: "next"}); r != nil {
		return r
	}
	v.hit("no-reappearance")
	best := bestState(S)
	if best.loss || best.perm {
		v.Kind = "finding"
		v.At = len(v.Trace) - 1
		if best.loss {
			v.IDs = append(v.IDs, "C10-content-hash-key")
		}
		if best.perm {
			v.IDs = append(v.IDs, "C10-reload-order")
		}
		v.Clause = "fifo-model"
		v.Detail = "outputs differ from the bounded FIFO exactly as predicted: " + strings.Join(best.notes, "; ")
	}
	return v
}

// shrink removes operations (and unneeded crashes) as long as keep(verdict) stays true.
func shrink(h History, keep func(*Verdict) bool) History {
	if !keep(Judge(h)) {
		return h
	}
	for changed := true; changed; {
		changed = false
		for i := len(h.Ops) - 1; i >= 0; i-- {
			c := h
			c.Ops = append(append([]Op(nil), h.Ops[:i]...), h.Ops[i+1:]...)
			if keep(Judge(c)) {
				h = c
				changed = true
			}
		}
		for i := range h.Ops {
			if h.Ops[i].Crash != 0 {
				c := h
				c.Ops = append([]Op(nil), h.Ops...)
				c.Ops[i].Crash = 0
				if keep(Judge(c)) {
					h = c
					changed = true
				}
			}
		}
	}
	return h
}

func sameVerdict(v *Verdict) func(*Verdict) bool {
	want := v.Kind + "/" + v.Clause
	return func(w *Verdict) bool { return w.Kind+"/"+w.Clause == want }
}

func onlyFinding(id string) func(*Verdict) bool {
	return func(w *Verdict) bool { return w.Kind == "finding" && len(w.IDs) == 1 && w.IDs[0] == id }
}

func hasFinding(id string) func(*Verdict) bool {
	return func(w *Verdict) bool {
		if w.Kind != "finding" {
			return false
		}
		for _, x := range w.IDs {
			if x == id {
				return true
			}
		}
		return false
	}
}
