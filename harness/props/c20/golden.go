package c20

// Histories that start on state written by the pinned tree ("Its scan position and its carry-over queue survive a
// restart" - the restart of an upgrade included: the store an operator has today was written by today's code).
//
// /verif/golden/c20/stores.json holds recorded datastores: for each fixture the DA contents, the parameters of the
// sequencer, the raw key/value image that a based sequencer of the pinned tree left behind after releasing the
// first `released` transactions of those contents, and the LastBatchData its caller held at that moment. The
// fixtures sit at DA heights of 1, 7, 8, 9, 10, 19 and 20 decimal digits (so do the recorded scan positions), with
// and without a carry-over in the persisted queue, on both kinds of DA ids. The file was written once with
// VERIF_C20_WRITE_GOLDEN=1 on the pinned tree and is never regenerated to make a check pass. The check starts
// today's sequencer on each image and continues the history with seeded steps; the oracle is the ordinary one
// (the stream continues at transaction #released). Nothing about the image's format is assumed by the check.

import (
	"context"
	"encoding/hex"
	"encoding/json"
	"fmt"
	"math/rand"
	"os"
	"path/filepath"
	"sort"

	ds "github.com/ipfs/go-datastore"

	"verifharness/vk"
	"verifharness/world"
)

// GoldenStore is one recorded datastore.
type GoldenStore struct {
	Name       string            `json:"name"`
	Start      uint64            `json:"da_start_height"`
	Drift      uint64            `json:"max_height_drift"`
	ContentIDs bool              `json:"content_derived_ids"`
	Base       uint64            `json:"heights_shifted_by"`
	DA         []goldenHeight    `json:"da_contents"`
	Prefix     string            `json:"history_before_the_record"`
	Image      map[string]string `json:"image"` // datastore key -> value (hex)
	Released   int               `json:"released"`
	Carry      bool              `json:"last_batch_ended_inside_a_height"`
	Last       []string          `json:"last_batch_data"` // hex
	PrevLast   []string          `json:"previous_batch_data"`
}

type goldenHeight struct {
	H   uint64   `json:"h"`
	Txs []string `json:"txs"` // hex
}

type goldenFile struct {
	Note   string        `json:"note"`
	Stores []GoldenStore `json:"stores"`
}

func goldenPath() string { return filepath.Join(vk.Root(), "golden", "c20", "stores.json") }

func hexAll(bs [][]byte) []string {
	out := make([]string, len(bs))
	for i, b := range bs {
		out[i] = hex.EncodeToString(b)
	}
	return out
}

func (g *GoldenStore) ids(hs []string) [][]byte {
	if len(hs) == 0 {
		return nil
	}
	out := make([][]byte, len(hs))
	for i, h := range hs {
		out[i], _ = hex.DecodeString(h)
	}
	return out
}

// record fills the store from what a run left behind.
func (g *GoldenStore) record(im *world.Image, released int, carry bool, last, prevLast [][]byte) {
	g.Image = map[string]string{}
	for k, v := range im.Snapshot() {
		g.Image[k] = hex.EncodeToString(v)
	}
	g.Released, g.Carry, g.Last, g.PrevLast = released, carry, hexAll(last), hexAll(prevLast)
}

// load writes the recorded image into im.
func (g *GoldenStore) load(im *world.Image) error {
	d := world.NewMemDS(im)
	keys := make([]string, 0, len(g.Image))
	for k := range g.Image {
		keys = append(keys, k)
	}
	sort.Strings(keys)
	for _, k := range keys {
		v, err := hex.DecodeString(g.Image[k])
		if err != nil {
			return fmt.Errorf("%s: value of %q: %w", g.Name, k, err)
		}
		if err := d.Put(context.Background(), ds.NewKey(k), v); err != nil {
			return err
		}
	}
	return nil
}

func (g *GoldenStore) heights() ([]HeightTxs, error) {
	var out []HeightTxs
	for _, gh := range g.DA {
		ht := HeightTxs{H: gh.H}
		for _, t := range gh.Txs {
			b, err := hex.DecodeString(t)
			if err != nil {
				return nil, fmt.Errorf("%s: height %d: %w", g.Name, gh.H, err)
			}
			ht.Txs = append(ht.Txs, string(b))
		}
		out = append(out, ht)
	}
	return out, nil
}

// readGolden loads the recorded stores.
func readGolden() ([]GoldenStore, error) {
	b, err := os.ReadFile(goldenPath())
	if err != nil {
		return nil, err
	}
	var gf goldenFile
	if err := json.Unmarshal(b, &gf); err != nil {
		return nil, err
	}
	for i := range gf.Stores {
		g := &gf.Stores[i]
		if _, err := g.heights(); err != nil {
			return nil, err
		}
		if err := g.load(world.NewImage()); err != nil {
			return nil, err
		}
	}
	return gf.Stores, nil
}

// storeCase builds a case that starts on the recorded store and continues with seeded steps: calls with limits of
// every kind (below a transaction, exactly one, above everything, default, huge), growth above the head, restarts.
func storeCase(rng *rand.Rand, id int, g *GoldenStore) Case {
	hts, _ := g.heights()
	c := Case{ID: id, Region: "free", Start: g.Start, Drift: g.Drift, ContentIDs: g.ContentIDs, Base: g.Base, Initial: hts, Store: g}
	w := newDAWorld()
	w.grow(hts)
	gn := &gen{rng: rng, used: map[string]bool{}}
	mx := maxTx(w)
	if mx < 2 {
		mx = 2
	}
	total := totalBytes(hts)
	for n := rng.Intn(6); len(c.Steps) < n; {
		switch p := rng.Intn(10); {
		case p < 2:
			c.Steps = append(c.Steps, Step{Kind: "restart", Cursor: []string{"", "nil", "stale"}[rng.Intn(3)]})
		case p < 4:
			var grow []HeightTxs
			lo := w.head + 1 + uint64(rng.Intn(2))
			for i, k := 0, 1+rng.Intn(2); i < k; i++ {
				grow = append(grow, gn.height(lo+uint64(i), 4, 12))
			}
			c.Steps = append(c.Steps, Step{Kind: "grow", Grow: grow})
			w.grow(grow)
		default:
			st := Step{Kind: "call"}
			switch rng.Intn(6) {
			case 0:
				st.Limit = 0
			case 1:
				st.Limit = 1 + uint64(rng.Intn(int(mx)))
			case 2:
				st.Limit = hugeLimit(rng)
			case 3:
				st.Limit = total + 1 + uint64(rng.Intn(100))
			default:
				st.Limit = mx + 1 + uint64(rng.Intn(int(total/3+2)))
			}
			c.Steps = append(c.Steps, st)
		}
	}
	if rng.Intn(4) == 0 {
		c.DrainLimit = hugeLimit(rng)
	}
	return c
}

// writeGolden records the stores (VERIF_C20_WRITE_GOLDEN=1, on the pinned tree only).
func writeGolden() int {
	rng := rand.New(rand.NewSource(20))
	g := &gen{rng: rng}
	gf := goldenFile{Note: "C20 recorded datastores: what a based sequencer of the pinned tree left in its datastore after the history given (DA contents, start height, drift; steps in words), with the number of transactions it had released and the LastBatchData its caller held; written once with VERIF_C20_WRITE_GOLDEN=1, do not regenerate to make a check pass"}
	bases := append([]uint64{0}, heightBases...)
	for _, base := range bases {
		// per base: 2 stores with a carry-over in the persisted queue and 2 without, ids of both kinds
		need := map[bool]int{true: 2, false: 2}
		for try := 0; try < 4000 && need[true]+need[false] > 0; try++ {
			g.wide, g.prev = true, nil
			c := g.genFreeOpt(len(gf.Stores), "free")
			g.wide = false
			ok := true
			for i := range c.Steps {
				// the recorded history itself is fault-free and ends with a call
				if c.Steps[i].CancelAtRetrieval != 0 {
					ok = false
				}
			}
			if !ok || c.Steps[len(c.Steps)-1].Kind != "call" || totalBytes(c.Initial) > 4000 {
				continue
			}
			c.ContentIDs = try%2 == 0
			if base > 0 {
				c = shift(c, base)
			}
			st := &GoldenStore{}
			c.dumpTo = st
			v := Judge(c)
			if v.Kind != "pass" || st.Image == nil || need[st.Carry] == 0 {
				continue
			}
			// the DA contents at the moment of the record: the initial ones and everything grown
			w := newDAWorld()
			w.grow(c.Initial)
			for _, s := range c.Steps {
				if s.Kind == "grow" {
					w.grow(s.Grow)
				}
			}
			if st.Released >= len(nonEmptyAt(w.stream(c.Start, nil))) {
				continue // everything is out already: nothing left to continue with
			}
			need[st.Carry]--
			st.Name = fmt.Sprintf("base-%d-%d", base, 4-need[true]-need[false])
			st.Start, st.Drift, st.ContentIDs, st.Base, st.Prefix = c.Start, c.Drift, c.ContentIDs, c.Base, describe(c)
			all := append([]HeightTxs(nil), c.Initial...)
			for _, s := range c.Steps {
				if s.Kind == "grow" {
					all = append(all, s.Grow...)
				}
			}
			for _, ht := range all {
				gh := goldenHeight{H: ht.H, Txs: []string{}}
				for _, t := range ht.Txs {
					gh.Txs = append(gh.Txs, hex.EncodeToString([]byte(t)))
				}
				st.DA = append(st.DA, gh)
			}
			gf.Stores = append(gf.Stores, *st)
		}
		if need[true]+need[false] > 0 {
			fmt.Printf("golden: base %d: could not record all stores (%v left)\n", base, need)
			return 1
		}
	}
	if err := os.MkdirAll(filepath.Dir(goldenPath()), 0o755); err != nil {
		fmt.Println("golden:", err)
		return 1
	}
	b, _ := json.MarshalIndent(gf, "", " ")
	if err := os.WriteFile(goldenPath(), append(b, '\n'), 0o644); err != nil {
		fmt.Println("golden:", err)
		return 1
	}
	fmt.Printf("golden: wrote %d stores to %s\n", len(gf.Stores), goldenPath())
	return 0
}
