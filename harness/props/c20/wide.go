package c20

// The wide dimensions of C20's inputs (quantifier: "all DA contents", "all size limits", "restarts between any two
// calls"), generated from their own random stream so that the other regions keep their cases:
//
//   - heights that contain the same bytes at two positions (adjacent or not) and bytes that recur at a later
//     height, on a DA double that derives its ids from the content (height + sha256, as the repository's DummyDA
//     does: both copies are listed under one id) or gives every placed blob its own id;
//   - limits at the edges of the integer types: 2^31, 2^32, 2^63, 2^64 and their neighbours ("unlimited"), as
//     ordinary calls (also right after a call that carried transactions over, and after a restart with a
//     persisted queue) and as the limit of the final drain phase;
//   - histories that play at large DA heights (7, 8, 9, 10, 19 and 20 decimal digits, across 2^32 and 2^63):
//     every height of a generated case is shifted by a base; the window model is invariant under the shift.

import (
	"math"
	"math/rand"
)

// hugeLimits are request sizes at the edges of int32/uint32/int64/uint64.
var hugeLimits = []uint64{
	1<<31 - 1, 1 << 31, 1<<31 + 1,
	1<<32 - 1, 1 << 32, 1<<32 + 1,
	1<<63 - 1, 1 << 63, 1<<63 + 1,
	math.MaxUint64 - 1, math.MaxUint64,
}

func hugeLimit(rng *rand.Rand) uint64 {
	if rng.Intn(2) == 0 {
		// the top half of the range, where a signed byte count wraps
		return []uint64{1 << 63, 1<<63 + 1, math.MaxUint64 - 1, math.MaxUint64, math.MaxUint64}[rng.Intn(5)]
	}
	return hugeLimits[rng.Intn(len(hugeLimits))]
}

// heightBases are the shifts of the histories that play at large heights. A case spans a few dozen heights
// above its base, so the bases just below a power of ten (or of two) make the scan position cross it.
var heightBases = []uint64{
	999_990,                    // 6 -> 7 digits
	1_234_567,                  // 7 digits
	9_999_990,                  // 7 -> 8 digits
	12_345_670,                 // 8 digits
	56_781_234,                 // 8 digits
	99_999_985,                 // 8 -> 9 digits
	123_456_789,                // 9 digits
	4_294_967_290,              // across 2^32 (10 digits)
	999_999_999_999_999_990,    // 18 -> 19 digits
	1_234_567_890_123_456_789,  // 19 digits
	9_223_372_036_854_775_800,  // across 2^63 (19 digits)
	9_999_999_999_999_999_990,  // 19 -> 20 digits
	12_345_678_901_234_567_890, // 20 digits
	18_446_744_073_709_550_000, // 20 digits, 1615 below 2^64
}

// shift moves every height of the case up by base.
func shift(c Case, base uint64) Case {
	n := cloneCase(c)
	n.Base += base
	n.Start += base
	for i := range n.Initial {
		n.Initial[i].H += base
	}
	for i := range n.Steps {
		for j := range n.Steps[i].Grow {
			n.Steps[i].Grow[j].H += base
		}
		for j := range n.Steps[i].Errs {
			n.Steps[i].Errs[j].H += base
		}
	}
	return n
}

// repeatBytes makes a height repeat transaction bytes: a copy of one of its transactions at a later position
// (adjacent in half of the cases), and now and then a copy of a transaction of the height generated before it.
// Zero-length blobs are never copied (they are not judged).
func (g *gen) repeatBytes(txs []string) []string {
	rng := g.rng
	insert := func(at int, t string) {
		txs = append(txs, "")
		copy(txs[at+1:], txs[at:])
		txs[at] = t
	}
	if len(txs) > 0 && rng.Intn(3) == 0 {
		for k, n := 0, 1+rng.Intn(2); k < n; k++ {
			i := rng.Intn(len(txs))
			if txs[i] == "" {
				continue
			}
			at := i + 1
			if rng.Intn(2) == 0 {
				at += rng.Intn(len(txs) - i)
			}
			insert(at, txs[i])
		}
	}
	if len(g.prev) > 0 && rng.Intn(4) == 0 {
		if t := g.prev[rng.Intn(len(g.prev))]; t != "" {
			insert(rng.Intn(len(txs)+1), t)
		}
	}
	if len(txs) > 0 {
		g.prev = txs
	}
	return txs
}

// sameBytesInHeight counts the transactions of the DA contents that repeat the bytes of an earlier transaction of
// their own height.
func sameBytesInHeight(w *daWorld) int {
	n := 0
	for _, ts := range w.content {
		seen := map[string]bool{}
		for _, t := range ts {
			if t == "" {
				continue
			}
			if seen[t] {
				n++
			}
			seen[t] = true
		}
	}
	return n
}

// genWide draws one case of the wide dimensions: a clean-region case (judged with the window model) or a free
// case (judged by the stream oracle alone), with repeated bytes and huge limits, on either kind of DA ids, at
// small or large heights, drained with the usual or with a huge limit.
func (g *gen) genWide(id int) Case {
	rng := g.rng
	g.wide, g.prev = true, nil
	defer func() { g.wide = false }()
	var c Case
	if rng.Intn(3) == 0 {
		c = g.genCase(id, "clean")
	} else {
		c = g.genFreeOpt(id, "free")
	}
	c.ContentIDs = rng.Intn(3) != 0
	if rng.Intn(2) == 0 {
		c = shift(c, heightBases[rng.Intn(len(heightBases))])
	}
	if rng.Intn(3) == 0 {
		c.DrainLimit = hugeLimit(rng)
	}
	return c
}

// carryThenHuge is the directed shape "a call leaves a carry-over, [restart,] the next call asks for everything":
// one height of several transactions, a limit that admits the first ones only, then a huge limit.
func (g *gen) carryThenHuge(id int) Case {
	rng := g.rng
	g.used, g.unique, g.binary, g.wide = map[string]bool{}, false, rng.Intn(2) == 0, false
	c := Case{ID: id, Region: "free", Start: 1, Drift: []uint64{0, 0, 1, 3}[rng.Intn(4)], ContentIDs: rng.Intn(2) == 0}
	n := 3 + rng.Intn(4)
	ht := HeightTxs{H: 1}
	for i := 0; i < n; i++ {
		ht.Txs = append(ht.Txs, g.tx(12))
	}
	c.Initial = []HeightTxs{ht, g.height(2, 4, 12)}
	var first uint64
	for _, t := range ht.Txs[:1+rng.Intn(n-1)] {
		first += uint64(len(t))
	}
	c.Steps = append(c.Steps, Step{Kind: "call", Limit: first + 1})
	if rng.Intn(2) == 0 {
		c.Steps = append(c.Steps, Step{Kind: "restart", Cursor: []string{"", "nil", "stale"}[rng.Intn(3)]})
	}
	c.Steps = append(c.Steps, Step{Kind: "call", Limit: hugeLimit(rng)})
	if rng.Intn(2) == 0 {
		c.DrainLimit = hugeLimit(rng)
	}
	if rng.Intn(2) == 0 {
		c = shift(c, heightBases[rng.Intn(len(heightBases))])
	}
	return c
}
