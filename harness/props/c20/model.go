package c20

import (
	"crypto/sha256"
	"encoding/hex"
	"encoding/json"
	"fmt"
	"sort"
	"strings"
	"unicode/utf8"
)

// HeightTxs is the content of one DA height (placement order = position).
type HeightTxs struct {
	H   uint64   `json:"h"`
	Txs []string `json:"txs"`
}

// MarshalJSON writes the transactions readably: printable ones as they are, binary ones as 0x<hex>, long ones
// abbreviated (the case is regenerated from the seed, never read back from JSON).
func (ht HeightTxs) MarshalJSON() ([]byte, error) {
	type out struct {
		H   uint64   `json:"h"`
		Txs []string `json:"txs"`
	}
	o := out{H: ht.H}
	for i, t := range ht.Txs {
		if i >= 40 {
			o.Txs = append(o.Txs, fmt.Sprintf("... %d more", len(ht.Txs)-i))
			break
		}
		o.Txs = append(o.Txs, showTx(t, 64))
	}
	return json.Marshal(o)
}

func printable(t string) bool {
	if !utf8.ValidString(t) {
		return false
	}
	for _, r := range t {
		if r < 0x20 || r == 0x7f || r == utf8.RuneError {
			return false
		}
	}
	return true
}

// showTx renders a transaction for reports.
func showTx(t string, maxLen int) string {
	if len(t) > maxLen {
		sum := sha256.Sum256([]byte(t))
		return fmt.Sprintf("0x%s…(%d bytes, sha256 %s)", hex.EncodeToString([]byte(t[:8])), len(t), hex.EncodeToString(sum[:4]))
	}
	if printable(t) {
		return t
	}
	return "0x" + hex.EncodeToString([]byte(t))
}

// ErrAt scripts one failing retrieval of a DA height.
type ErrAt struct {
	H     uint64 `json:"h"`
	Kind  string `json:"kind"`            // listerr | chunkerr
	Chunk int    `json:"chunk,omitempty"` // chunkerr: which chunk fetch of the height fails
}

// Step is one step of a case.
type Step struct {
	Kind  string      `json:"kind"` // call | restart | grow
	Limit uint64      `json:"limit,omitempty"`
	Errs  []ErrAt     `json:"errors,omitempty"` // armed right before the call
	Grow  []HeightTxs `json:"grow,omitempty"`   // heights above the current head, increasing; no txs = empty height
	// Cursor (restart steps): which LastBatchData the caller passes after the restart: "" = the one of the last
	// response (a caller that kept it), "nil" = none (a caller that lost it), "stale" = the one before.
	Cursor string `json:"last_batch_data,omitempty"`
	// CrashAfter (call steps of the crash experiment): the datastore dies after this many more durable writes,
	// i.e. inside the call; 0 = not armed, k = k-1 writes succeed.
	CrashAfter int `json:"crash_after_writes,omitempty"`
	// CancelAtRetrieval (call steps): the caller's context is cancelled when the call makes its k-th request to the DA
	// layer (a node that shuts down, or gives up, while the sequencer scans); 0 = never
	CancelAtRetrieval int `json:"cancel_at_kth_da_request,omitempty"`
}

// DefaultLimit is what the harness assumes a request without a size (MaxBytes = 0) admits at least: the model
// only needs "more than any generated DA content" (cases are generated below it).
const DefaultLimit = 1_500_000

func effLimit(l uint64) uint64 {
	if l == 0 {
		return DefaultLimit
	}
	return l
}

// Case is one generated history.
type Case struct {
	ID      int         `json:"id"`
	Region  string      `json:"region"` // clean | skips-unproduced | partial-fit | oversize | free | crash-inside (how it was generated)
	Start   uint64      `json:"da_start_height"`
	Drift   uint64      `json:"max_height_drift"`
	Initial []HeightTxs `json:"initial"`
	Steps   []Step      `json:"steps"`
	// Base: every height of the case (start height, contents, growth, scripted errors) was shifted up by this much
	// (the history plays at large DA heights; the window model is invariant under the shift).
	Base uint64 `json:"heights_shifted_by,omitempty"`
	// ContentIDs: the DA double derives blob ids from the content (height + sha256), like the repository's DummyDA:
	// the same bytes at two positions of one height are listed under one id.
	ContentIDs bool `json:"content_derived_ids,omitempty"`
	// DrainLimit: the size requested in the final drain phase (0 = a little above the whole DA content).
	DrainLimit uint64 `json:"drain_limit,omitempty"`
	// Store: the history starts on a datastore left behind by the pinned tree (see golden.go), not on an empty one.
	Store *GoldenStore `json:"store_written_by_pinned_tree,omitempty"`
	// dumpTo (golden writer only): where to record the state reached after the last step.
	dumpTo *GoldenStore
}

// TxAt is one transaction of the DA contents with its coordinates.
type TxAt struct {
	H   uint64
	Pos int
	Tx  string
}

// world is the harness's own record of what is on DA (never read back from the sequencer).
type daWorld struct {
	head    uint64
	content map[uint64][]string
}

func newDAWorld() *daWorld { return &daWorld{content: map[uint64][]string{}} }

func (w *daWorld) grow(hts []HeightTxs) {
	for _, ht := range hts {
		if len(ht.Txs) > 0 {
			w.content[ht.H] = append([]string(nil), ht.Txs...)
		}
		if ht.H > w.head {
			w.head = ht.H
		}
	}
}

// stream returns the DA contents up to the head in (height, position) order, leaving out the
// heights in skip.
func (w *daWorld) stream(start uint64, skip map[uint64]bool) []TxAt {
	hs := make([]uint64, 0, len(w.content))
	for h := range w.content {
		if h >= start && h <= w.head && !skip[h] {
			hs = append(hs, h)
		}
	}
	sort.Slice(hs, func(i, j int) bool { return hs[i] < hs[j] })
	var out []TxAt
	for _, h := range hs {
		for i, t := range w.content[h] {
			out = append(out, TxAt{H: h, Pos: i, Tx: t})
		}
	}
	return out
}

// ---------------------------------------------------------------------------------------
// Trigger predicates. They are functions of the generated case only. They need the notion of
// the *scan window* of a call: the property itself speaks of a persistent "scan position" c;
// a call examines the heights c .. c+drift (the sequencer's max-height-drift parameter) and,
// when nothing stops it, leaves c at c+drift+1; a failing retrieval at height h leaves c at h.
//
//   trigger C20-rescan-after-partial (push-back): a call whose window content (what is
//       produced in it and not yet released) does not fit strictly below the call's limit, so
//       that the scan has to stop inside the window and carry transactions over;
//   trigger C20-skips-unproduced-heights: a height lay inside the window of some call while it
//       was still above the DA head, and receives transactions later;
//   trigger C20-scan-after-partial-pop: after a push-back, a call whose limit does not admit
//       the next carried-over transaction (evaluated at the call where the stream first
//       deviates, see classify).
//
// The window model is only followed up to the first push-back: from there on the case is in the
// partial regions and is judged by the shape of its first deviation.
// ---------------------------------------------------------------------------------------

type pushBack struct {
	Call int    `json:"call"` // index into Steps
	H    uint64 `json:"height"`
	Pos  int    `json:"pos"`
}

type sim struct {
	start, drift uint64
	cursor       uint64
	w            *daWorld
	skipped      map[uint64]bool
	skippedHit   map[uint64]bool // skipped heights that received transactions later
	pb           *pushBack
	errs         map[uint64][]string
}

func newSim(c Case) *sim {
	s := &sim{start: c.Start, drift: c.Drift, cursor: c.Start, w: newDAWorld(),
		skipped: map[uint64]bool{}, skippedHit: map[uint64]bool{}, errs: map[uint64][]string{}}
	s.w.grow(c.Initial)
	return s
}

func (s *sim) grow(hts []HeightTxs) {
	for _, ht := range hts {
		if s.skipped[ht.H] && len(ht.Txs) > 0 {
			s.skippedHit[ht.H] = true
		}
	}
	s.w.grow(hts)
}

func (s *sim) arm(errs []ErrAt) {
	for _, e := range errs {
		s.errs[e.H] = append(s.errs[e.H], e.Kind)
	}
}

// windowBytes is the number of bytes a call would have to release to cover its whole window
// (up to a scripted retrieval error).
func (s *sim) windowBytes() uint64 {
	var n uint64
	for h := s.cursor; h <= s.cursor+s.drift; h++ {
		if len(s.errs[h]) > 0 {
			break
		}
		if h <= s.w.head {
			for _, t := range s.w.content[h] {
				n += uint64(len(t))
			}
		}
	}
	return n
}

// call advances the window model over one GetNextBatch with the given limit.
func (s *sim) call(stepIdx int, limit uint64) {
	if s.pb != nil {
		return
	}
	limit = effLimit(limit)
	var size uint64
	for h := s.cursor; h <= s.cursor+s.drift; h++ {
		if q := s.errs[h]; len(q) > 0 {
			s.errs[h] = q[1:]
			s.cursor = h
			return
		}
		if h > s.w.head {
			s.skipped[h] = true
			continue
		}
		for i, t := range s.w.content[h] {
			if size+uint64(len(t)) >= limit {
				s.pb = &pushBack{Call: stepIdx, H: h, Pos: i}
				s.cursor = h
				return
			}
			size += uint64(len(t))
		}
	}
	s.cursor += s.drift + 1
}

func (s *sim) trigSkip() bool { return len(s.skippedHit) > 0 }

// Triggers evaluates the case-level trigger predicates.
func Triggers(c Case) (pushBackAt *pushBack, skips []uint64) {
	s := newSim(c)
	for i, st := range c.Steps {
		switch st.Kind {
		case "grow":
			s.grow(st.Grow)
		case "call":
			s.arm(st.Errs)
			s.call(i, st.Limit)
		}
	}
	for h := range s.skippedHit {
		skips = append(skips, h)
	}
	sort.Slice(skips, func(i, j int) bool { return skips[i] < skips[j] })
	return s.pb, skips
}

// ---------------------------------------------------------------------------------------
// Predicted shapes of the first deviation of a released batch B from the expected stream E at
// position p (limit L), used only after a push-back has happened (partial regions):
//
//   C20-scan-after-partial-pop: B = A ++ X, A the correct continuation E[p..p+m), X not empty,
//       and the next expected transaction E[p+m] does not fit: |A| + |E[p+m]| > L. Something was
//       released behind a carried-over transaction that did not fit.
//   C20-rescan-after-partial: B = A ++ X, A the correct continuation and ending exactly at the
//       end of a height h (all carried-over transactions of h are out), X not empty and equal to
//       one or more contiguous runs of E that each start again at the first transaction of h: the
//       height at which the scan had stopped is released again.
//   anything else is not a known shape.
// ---------------------------------------------------------------------------------------

func classify(B []string, E []TxAt, p int, limit uint64) (id, detail string) {
	mMax := 0
	for mMax < len(B) && p+mMax < len(E) && B[mMax] == E[p+mMax].Tx {
		mMax++
	}
	if mMax == len(B) {
		return "", "no deviation"
	}
	// Equal transaction contents can make the correct continuation look longer than it was, so
	// every split B = A ++ X with A a correct continuation is tried, longest A first.
	for m := mMax; m >= 0; m-- {
		if id, d := classifySplit(B, E, p, m, limit); id != "" {
			return id, d
		}
	}
	exp := "nothing (stream exhausted)"
	if p+mMax < len(E) {
		exp = fmt.Sprintf("%s (height %d pos %d)", short(E[p+mMax].Tx), E[p+mMax].H, E[p+mMax].Pos)
	}
	return "", fmt.Sprintf("after %d correct tx the batch continues with %s where %s was expected", mMax, shortList(B[mMax:]), exp)
}

func classifySplit(B []string, E []TxAt, p, m int, limit uint64) (id, detail string) {
	var sizeA uint64
	for _, t := range B[:m] {
		sizeA += uint64(len(t))
	}
	X := B[m:]
	if p+m < len(E) && sizeA+uint64(len(E[p+m].Tx)) > limit {
		return "C20-scan-after-partial-pop", fmt.Sprintf("after the correct continuation of %d tx (%d bytes) the next transaction %s (height %d pos %d, %d bytes) does not fit the limit %d, yet %d more tx were released behind it: %s",
			m, sizeA, short(E[p+m].Tx), E[p+m].H, E[p+m].Pos, len(E[p+m].Tx), limit, len(X), shortList(X))
	}
	if p+m >= 1 && (p+m == len(E) || E[p+m].H > E[p+m-1].H) {
		h := E[p+m-1].H
		s := p + m - 1
		for s > 0 && E[s-1].H == h {
			s--
		}
		// X must be one or more runs of E, each starting again at the first transaction of h
		ok := true
		j := 0
		runs := 0
		for _, x := range X {
			switch {
			case j > 0 && s+j < len(E) && x == E[s+j].Tx:
				j++
			case x == E[s].Tx:
				j = 1
				runs++
			default:
				ok = false
			}
			if !ok {
				break
			}
		}
		if ok {
			return "C20-rescan-after-partial", fmt.Sprintf("after the correct continuation of %d tx up to the end of height %d, the batch goes on with %d tx that repeat the stream from the first transaction of height %d (%d run(s)): %s",
				m, h, len(X), h, runs, shortList(X))
		}
	}
	return "", ""
}

func short(t string) string {
	if !printable(t) {
		return showTx(t, 10)
	}
	if len(t) > 10 {
		return fmt.Sprintf("%s…(%dB)", t[:8], len(t))
	}
	return t
}

func shortList(ts []string) string {
	out := make([]string, 0, len(ts))
	for i, t := range ts {
		if i >= 8 {
			out = append(out, fmt.Sprintf("…+%d", len(ts)-i))
			break
		}
		out = append(out, short(t))
	}
	return "[" + strings.Join(out, " ") + "]"
}
