// Package c20 decides C20: the based sequencer releases the DA contents in DA order, each
// transaction once, within the requested size, carrying over what did not fit, across restarts
// (see /verif/DESIGN.md §7).
//
// Files: model.go (the harness's record of the DA contents, the window model behind the trigger
// predicates, the predicted shapes), c20.go (generator, execution against the real sequencer,
// oracle, reporting).
package c20

import (
	"context"
	"fmt"
	"math/rand"
	"os"
	"strings"
	"sync"
	"sync/atomic"
	"time"

	logging "github.com/ipfs/go-log/v2"

	coresequencer "github.com/evstack/ev-node/core/sequencer"
	"github.com/evstack/ev-node/sequencers/based"

	"verifharness/vk"
	"verifharness/world"
)

// Level is the verification level claimed for this property.
const Level = "exploration"

const chainID = "c20-chain"

var seqLogger = logging.Logger("c20")

// ------------------------------------------------------------------ generation

type gen struct {
	rng    *rand.Rand
	uniq   int
	used   map[string]bool // contents used in the current case
	unique bool            // trigger regions: all transaction contents of a case are pairwise different
	binary bool            // this case mixes in binary transaction contents (see binTx)
	// wide (see wide.go): heights repeat transaction bytes (inside a height and across heights) and limits may be
	// huge; no additional random numbers are drawn when it is off
	wide bool
	prev []string // wide: the transactions of the previously generated non-empty height
}

// invalid UTF-8 material: lone continuation bytes, truncated sequences, an encoded surrogate, 0xFE/0xFF
var badUTF8 = []byte{0xC3, 0x28, 0xA0, 0xA1, 0xE2, 0x28, 0xA1, 0xF0, 0x28, 0x8C, 0xBC, 0xED, 0xA0, 0x80, 0xFE, 0xFF, 0x80}

// binTx draws a transaction that is not text: zero bytes, 0xFF runs, random bytes, invalid UTF-8, JSON
// metacharacters and the Unicode replacement character itself, or (where contents may repeat) no bytes at all.
// The carry-over queue of the sequencer is persisted: whatever encoding it uses must give these back unchanged.
func (g *gen) binTx(maxSize int) string {
	rng := g.rng
	for try := 0; ; try++ {
		n := 1 + rng.Intn(maxSize)
		if try > 8 {
			n += try / 8
		}
		b := make([]byte, n)
		switch rng.Intn(6) {
		case 0: // zero bytes
		case 1:
			for i := range b {
				b[i] = 0xFF
			}
		case 2:
			rng.Read(b)
		case 3:
			off := rng.Intn(len(badUTF8))
			for i := range b {
				b[i] = badUTF8[(off+i)%len(badUTF8)]
			}
		case 4:
			special := []byte{0x00, 0xFF, '"', '\\', '\n', 0xEF, 0xBF, 0xBD, 'a', 'b', 0x7f, 0x1b}
			for i := range b {
				b[i] = special[rng.Intn(len(special))]
			}
		default:
			if !g.unique {
				b = b[:0] // a zero-length blob
			} else {
				rng.Read(b)
			}
		}
		if g.unique && try > 0 {
			rng.Read(b[len(b)/2:])
		}
		t := string(b)
		if !g.unique || !g.used[t] {
			g.used[t] = true
			return t
		}
	}
}

const txAlphabet = "abcdefghijklmnopqrstuvwxyzABCDEFGHIJKLMNOPQRSTUVWXYZ0123456789"

// tx draws a transaction of 1..maxSize bytes. In the clean region small transactions repeat
// often (4-letter alphabet); in the trigger regions contents are pairwise different so that the
// shape of a deviation can be read off without ambiguity.
func (g *gen) tx(maxSize int) string {
	if g.binary && g.rng.Intn(3) == 0 {
		return g.binTx(maxSize)
	}
	n := 1 + g.rng.Intn(maxSize)
	if g.rng.Intn(6) == 0 {
		n = 1 + g.rng.Intn(3)
	}
	for try := 0; ; try++ {
		g.uniq++
		id := fmt.Sprintf("%x.", g.uniq)
		b := make([]byte, n)
		for i := range b {
			switch {
			case i < len(id) && n >= len(id)+1:
				b[i] = id[i]
			case g.unique:
				b[i] = txAlphabet[g.rng.Intn(len(txAlphabet))]
			default:
				b[i] = byte('a' + g.rng.Intn(4))
			}
		}
		t := string(b)
		if !g.unique || !g.used[t] {
			g.used[t] = true
			return t
		}
		if try%8 == 7 {
			n++
		}
	}
}

func (g *gen) height(h uint64, maxTx, maxSize int) HeightTxs {
	ht := HeightTxs{H: h}
	if g.rng.Intn(4) == 0 {
		return ht // empty height
	}
	n := g.rng.Intn(maxTx + 1)
	for i := 0; i < n; i++ {
		ht.Txs = append(ht.Txs, g.tx(maxSize))
	}
	if g.wide && !g.unique {
		ht.Txs = g.repeatBytes(ht.Txs)
	}
	return ht
}

func totalBytes(hts []HeightTxs) uint64 {
	var n uint64
	for _, ht := range hts {
		for _, t := range ht.Txs {
			n += uint64(len(t))
		}
	}
	return n
}

func maxTx(w *daWorld) uint64 {
	var m uint64
	for _, ts := range w.content {
		for _, t := range ts {
			if uint64(len(t)) > m {
				m = uint64(len(t))
			}
		}
	}
	return m
}

// genCase generates one case of the given region. Clean and skips-unproduced cases never let a
// window content reach the limit; partial-fit and oversize cases do so on purpose.
func (g *gen) genCase(id int, region string) Case {
	for {
		c := g.genOnce(id, region)
		pb, skips := Triggers(c)
		switch region {
		case "clean":
			if pb == nil && len(skips) == 0 {
				return c
			}
		case "skips-unproduced":
			if pb == nil && len(skips) > 0 {
				return c
			}
		default:
			if pb != nil && len(skips) == 0 {
				return c
			}
		}
	}
}

func (g *gen) genOnce(id int, region string) Case {
	rng := g.rng
	g.used = map[string]bool{}
	g.unique = region != "clean"
	g.binary = rng.Intn(2) == 0
	c := Case{ID: id, Region: region, Start: []uint64{0, 1, 1, 3}[rng.Intn(4)], Drift: []uint64{0, 0, 1, 2, 5}[rng.Intn(5)]}
	first := c.Start
	if first == 0 {
		first = 1
	}
	maxSize := []int{60, 60, 12, 4}[rng.Intn(4)]
	nInit := 1 + rng.Intn(8)
	for i := 0; i < nInit; i++ {
		c.Initial = append(c.Initial, g.height(first+uint64(i), 6, maxSize))
	}
	s := newSim(c)
	nSteps := 4 + rng.Intn(14)
	natural := rng.Intn(2) == 0 // clean cases of the natural kind: the DA head stays ahead of the scan
	for len(c.Steps) < nSteps {
		p := rng.Intn(100)
		switch {
		case p < 18:
			c.Steps = append(c.Steps, Step{Kind: "restart", Cursor: []string{"", "", "nil", "stale"}[rng.Intn(4)]})
		case p < 38:
			if s.pb != nil {
				// partial regions: the DA is static once the first push-back has happened (the
				// window model ends there, so the skip trigger could no longer be excluded)
				continue
			}
			// DA growth: 1-3 new heights above the head
			lo := s.w.head + 1
			switch region {
			case "skips-unproduced":
				// may fill heights the scan has already passed
			default:
				if s.cursor > lo {
					lo = s.cursor // never behind the scan position
				}
			}
			if region != "skips-unproduced" && rng.Intn(3) == 0 {
				lo += uint64(rng.Intn(3))
			}
			var hts []HeightTxs
			n := 1 + rng.Intn(3)
			for i := 0; i < n; i++ {
				hts = append(hts, g.height(lo+uint64(i), 6, maxSize))
			}
			c.Steps = append(c.Steps, Step{Kind: "grow", Grow: hts})
			s.grow(hts)
		default:
			if (region == "clean" && natural) && s.cursor+s.drift > s.w.head {
				// keep the head ahead of the window: produce the missing heights first
				var hts []HeightTxs
				for h := s.w.head + 1; h <= s.cursor+s.drift; h++ {
					hts = append(hts, g.height(h, 6, maxSize))
				}
				c.Steps = append(c.Steps, Step{Kind: "grow", Grow: hts})
				s.grow(hts)
			}
			st := Step{Kind: "call"}
			// scripted retrieval errors inside the coming window
			if rng.Intn(100) < 25 && s.pb == nil {
				n := 1 + rng.Intn(2)
				for i := 0; i < n; i++ {
					h := s.cursor + uint64(rng.Intn(int(s.drift)+1))
					if h > s.w.head {
						continue
					}
					kind := "listerr"
					if len(s.w.content[h]) > 0 && rng.Intn(2) == 0 {
						kind = "chunkerr"
					}
					st.Errs = append(st.Errs, ErrAt{H: h, Kind: kind})
				}
			}
			s.arm(st.Errs)
			wb := s.windowBytes()
			switch region {
			case "clean", "skips-unproduced":
				st.Limit = wb + 1 + uint64(rng.Intn(40))
				if rng.Intn(4) == 0 {
					st.Limit = wb + 1 // tightest limit that still covers the window
				}
				if rng.Intn(6) == 0 {
					st.Limit = wb + 100000
				}
				if rng.Intn(12) == 0 {
					st.Limit = 0 // no size requested: the sequencer's default applies
				}
				if g.wide && rng.Intn(5) == 0 {
					st.Limit = hugeLimit(rng)
				}
			case "partial-fit":
				// never below the largest transaction: everything fits some batch
				m := maxTx(s.w) + 1
				st.Limit = m + uint64(rng.Intn(int(wb/2+2)))
				if rng.Intn(4) == 0 {
					st.Limit = wb + 1 + uint64(rng.Intn(20))
				}
			case "oversize":
				m := maxTx(s.w)
				if m < 2 {
					m = 2
				}
				st.Limit = 1 + uint64(rng.Intn(int(m)))
				if rng.Intn(3) == 0 {
					st.Limit = m + uint64(rng.Intn(int(wb/2+2)))
				}
			}
			s.call(len(c.Steps), st.Limit)
			c.Steps = append(c.Steps, st)
		}
	}
	return c
}

// genFree generates a case without any regard to the window model: limits anywhere (below single transactions,
// exactly a transaction's size, above everything, none = default), retrieval errors and DA growth at any time
// (also after transactions were carried over), restarts with the caller's LastBatchData kept, lost or stale,
// binary transaction contents, now and then a height with more ids than one fetch chunk or one large
// transaction. Such a case is judged by the stream oracle alone.
func (g *gen) genFree(id int) Case { return g.genFreeOpt(id, "free") }

// genCrash is a free case with pairwise different transactions in which the datastore dies inside one call
// (after 0, 1 or 2 more durable writes); the sequencer is restarted right after it.
func (g *gen) genCrash(id int) Case {
	for {
		c := g.genFreeOpt(id, "crash-inside")
		var calls []int
		for i, st := range c.Steps {
			if st.Kind == "call" {
				calls = append(calls, i)
			}
		}
		if len(calls) < 2 {
			continue
		}
		i := calls[g.rng.Intn(len(calls))]
		c.Steps[i].CrashAfter = 1 + g.rng.Intn(3)
		rest := append([]Step{{Kind: "restart", Cursor: []string{"", "nil", "stale"}[g.rng.Intn(3)]}}, c.Steps[i+1:]...)
		c.Steps = append(c.Steps[:i+1:i+1], rest...)
		return c
	}
}

func (g *gen) genFreeOpt(id int, region string) Case {
	rng := g.rng
	g.used = map[string]bool{}
	g.unique = region == "crash-inside"
	g.binary = rng.Intn(4) != 0
	c := Case{ID: id, Region: region, Start: []uint64{0, 1, 1, 3}[rng.Intn(4)], Drift: []uint64{0, 0, 1, 2, 5}[rng.Intn(5)]}
	first := c.Start
	if first == 0 {
		first = 1
	}
	maxSize := []int{60, 60, 12, 4}[rng.Intn(4)]
	flavour := rng.Intn(12) // 0: a height with 101-230 txs; 1: one transaction of 256 KiB
	if g.unique {
		flavour = -1
	}
	special := func(ht HeightTxs) HeightTxs {
		switch flavour {
		case 0:
			n := []int{101, 150, 200, 201, 230}[rng.Intn(5)]
			for len(ht.Txs) < n {
				ht.Txs = append(ht.Txs, g.tx(4))
			}
		case 1:
			b := make([]byte, 256<<10)
			rng.Read(b)
			ht.Txs = append(ht.Txs, "")
			pos := rng.Intn(len(ht.Txs))
			copy(ht.Txs[pos+1:], ht.Txs[pos:])
			ht.Txs[pos] = string(b)
		}
		flavour = -1
		return ht
	}
	w := newDAWorld()
	nInit := 1 + rng.Intn(8)
	at := rng.Intn(nInit + 2) // which height gets the special content (may be a grown one, or none)
	nth := 0
	height := func(h uint64) HeightTxs {
		ht := g.height(h, 6, maxSize)
		if nth == at {
			ht = special(ht)
		}
		nth++
		return ht
	}
	for i := 0; i < nInit; i++ {
		c.Initial = append(c.Initial, height(first+uint64(i)))
	}
	w.grow(c.Initial)
	nSteps := 4 + rng.Intn(14)
	for len(c.Steps) < nSteps {
		switch p := rng.Intn(100); {
		case p < 20:
			c.Steps = append(c.Steps, Step{Kind: "restart", Cursor: []string{"", "", "nil", "stale"}[rng.Intn(4)]})
		case p < 40:
			lo := w.head + 1 + uint64(rng.Intn(3))/2 // sometimes an empty height in between
			var hts []HeightTxs
			for i, n := 0, 1+rng.Intn(3); i < n; i++ {
				hts = append(hts, height(lo+uint64(i)))
			}
			c.Steps = append(c.Steps, Step{Kind: "grow", Grow: hts})
			w.grow(hts)
		default:
			st := Step{Kind: "call"}
			if rng.Intn(100) < 30 {
				for i, n := 0, 1+rng.Intn(2); i < n; i++ {
					h := first + uint64(rng.Intn(int(w.head-first)+2)) // up to one above the head
					e := ErrAt{H: h, Kind: "listerr"}
					if k := len(w.content[h]); k > 0 && rng.Intn(2) == 0 {
						e.Kind, e.Chunk = "chunkerr", rng.Intn((k+99)/100)
					}
					st.Errs = append(st.Errs, e)
				}
			}
			var total uint64
			for _, ts := range w.content {
				for _, t := range ts {
					total += uint64(len(t))
				}
			}
			mx := maxTx(w)
			if mx < 2 {
				mx = 2
			}
			switch rng.Intn(10) {
			case 0:
				st.Limit = 0 // default
			case 1:
				st.Limit = 1 + uint64(rng.Intn(int(mx))) // may be below a single transaction
			case 2:
				st.Limit = mx // exactly the largest transaction
			case 3:
				st.Limit = total + 1 + uint64(rng.Intn(100))
			default:
				st.Limit = mx + 1 + uint64(rng.Intn(int(total/3+2)))
			}
			if g.wide && rng.Intn(5) == 0 {
				st.Limit = hugeLimit(rng)
			}
			if region == "free" && len(st.Errs) == 0 && rng.Intn(12) == 0 {
				st.CancelAtRetrieval = 1 + rng.Intn(4)
			}
			c.Steps = append(c.Steps, st)
		}
	}
	return c
}

// directed returns the smallest reproductions known of the three recorded findings.
func directed() []Case {
	call := func(l uint64) Step { return Step{Kind: "call", Limit: l} }
	return []Case{
		{ID: -1, Region: "partial-fit", Start: 1, Drift: 0, Initial: []HeightTxs{{H: 1, Txs: []string{"aa", "bb", "cc"}}, {H: 2, Txs: []string{"dd"}}},
			Steps: []Step{call(5), call(5), call(5), call(5)}},
		{ID: -2, Region: "skips-unproduced", Start: 1, Drift: 1, Initial: []HeightTxs{{H: 1, Txs: []string{"a"}}},
			Steps: []Step{call(100), {Kind: "grow", Grow: []HeightTxs{{H: 2, Txs: []string{"b"}}}}, call(100)}},
		{ID: -3, Region: "oversize", Start: 1, Drift: 0, Initial: []HeightTxs{{H: 1, Txs: []string{"a", "BIGGG"}}},
			Steps: []Step{call(3), call(3), call(3)}},
	}
}

// ------------------------------------------------------------------ execution and oracle

// CallRec is one observed GetNextBatch.
type CallRec struct {
	Step     int      `json:"step"`
	Limit    uint64   `json:"limit"`
	Head     uint64   `json:"da_head"`
	Released []string `json:"released"`
	Bytes    uint64   `json:"bytes"`
	Err      string   `json:"err,omitempty"`
	Phase    string   `json:"phase,omitempty"`
}

// Verdict is the judgement of one case.
type Verdict struct {
	Kind     string    `json:"verdict"` // pass | finding | violation
	Clause   string    `json:"clause,omitempty"`
	ID       string    `json:"finding_id,omitempty"`
	Detail   string    `json:"detail,omitempty"`
	Calls    []CallRec `json:"calls"`
	PushBack *pushBack `json:"model_push_back,omitempty"`
	Skipped  []uint64  `json:"model_skipped_heights_filled_later,omitempty"`
	hits     map[string]int64
	nRestart int
	nErr     int
	nGrow    int
	nRelCall int
	partial  int
	// CrashKind: what was seen after the datastore died inside a call (crash experiment).
	CrashKind string `json:"after_crash_inside_call,omitempty"`
	zeroRel   int    // zero-length blobs released
	binRel    int    // non-text transactions released in order
	kinds     strings.Builder
}

func hex2(ts [][]byte) []string {
	out := make([]string, len(ts))
	for i, t := range ts {
		out[i] = string(t)
	}
	return out
}

// pacedInVain counts the cases of this run that were given real time (a second of paced calls) to complete and
// still did not: after pacedInVainMax of them the run is failing for a reason that pauses do not cure, and further
// incomplete cases are judged without the wait (it only keeps a failing run short; a sequencer that merely paces
// itself completes during the wait and never counts here).
var pacedInVain atomic.Int64

const pacedInVainMax = 24

// Judge runs the case against the real based sequencer and judges it.
func Judge(c Case) *Verdict {
	v := &Verdict{Kind: "pass", hits: map[string]int64{}}
	ctx := context.Background()
	im := world.NewImage()
	da := world.NewDADouble()
	da.ContentIDs = c.ContentIDs
	if c.Base > 0 || c.Store != nil {
		// large heights: keep the reported block times inside the range a time.Time can be encoded in
		da.TimeOf = func(h uint64) time.Time { return time.Unix(1_700_000_000+int64(h%1_000_000_000), 0) }
	}
	if c.Store != nil {
		if err := c.Store.load(im); err != nil {
			v.Kind, v.Clause, v.Detail = "inconclusive", "setup", "recorded store not loadable: "+err.Error()
			return v
		}
	}
	s := newSim(c) // window model (trigger predicates) and the harness's record of the DA contents
	place := func(hts []HeightTxs) {
		for _, ht := range hts {
			if len(ht.Txs) == 0 {
				da.SetHeight(ht.H)
				continue
			}
			blobs := make([][]byte, len(ht.Txs))
			for i, t := range ht.Txs {
				blobs[i] = []byte(t)
			}
			da.Place(ht.H, blobs...)
		}
	}
	place(c.Initial)
	var ds *world.MemDS
	var seq *based.Sequencer
	start := func() error {
		if ds != nil {
			ds.CrashNow()
		}
		ds = world.NewMemDS(im)
		var err error
		seq, err = based.NewSequencer(seqLogger, da, []byte(chainID), c.Start, c.Drift, ds)
		return err
	}
	fail := func(clause, detail string) *Verdict {
		v.Kind, v.Clause, v.Detail = "violation", clause, detail
		v.PushBack = s.pb
		return v
	}
	if err := start(); err != nil {
		return fail("startup", err.Error())
	}
	var last, prevLast [][]byte // LastBatchData of the latest response / of the one before
	strictOnly := c.Region == "free" || c.Region == "crash-inside"
	carry := false // the latest batch ended inside a height: something is carried over
	pS, pT := 0, 0 // released so far according to the strict / the skip-tolerant expectation
	strictAlive, tolAlive := true, true
	strictDeath := ""
	afterRestart := "" // "" | kept | nil | stale: a restart happened and no batch was released since
	if st := c.Store; st != nil {
		// the history starts as a restart on a store that the pinned tree wrote while it released the first
		// st.Released transactions of these DA contents
		last, prevLast = st.ids(st.Last), st.ids(st.PrevLast)
		pS, pT, carry = st.Released, st.Released, st.Carry
		afterRestart = "kept"
		v.nRestart++
		v.hits["start-on-store-written-by-pinned-tree"]++
		if carry {
			v.hits["start-on-store-written-by-pinned-tree-with-carry-over"]++
		}
	}

	// doCall performs one GetNextBatch and judges the batch. It returns a final verdict or nil.
	// crash experiment: a call during which the datastore died. Its response never reached anybody; from then on
	// the released transactions are only collected and compared with the DA contents at the end (evalCrash).
	armCrash := 0
	cancelAt := 0
	crashed := false
	crashAt := 0
	var crashB, crashR []string
	doCall := func(stepIdx int, limit uint64, phase string) *Verdict {
		if armCrash > 0 {
			ds.CrashAfter(armCrash - 1)
			phase = fmt.Sprintf("datastore dies after %d more write(s)", armCrash-1)
		}
		callCtx := ctx
		if cancelAt > 0 {
			cctx, cancel := context.WithCancel(ctx)
			k, at := 0, cancelAt
			da.Delay = func(kind string) {
				if kind == "getids" || kind == "get" {
					if k++; k == at {
						cancel()
					}
				}
			}
			callCtx = cctx
			phase = fmt.Sprintf("the caller's context ends at the call's DA request #%d", cancelAt)
			cancelAt = 0
			defer func() { da.Delay = nil; cancel() }()
			v.hits["call-with-context-cancelled-mid-scan"]++
		}
		if limit >= 1<<31 && carry && !crashed {
			v.hits["huge-limit-call-with-carry-over"]++
			if afterRestart != "" {
				v.hits["huge-limit-call-with-carry-over-after-restart"]++
			}
		}
		resp, err := seq.GetNextBatch(callCtx, coresequencer.GetNextBatchRequest{Id: []byte(chainID), LastBatchData: last, MaxBytes: limit})
		rec := CallRec{Step: stepIdx, Limit: limit, Head: s.w.head, Phase: phase}
		if armCrash > 0 {
			armCrash = 0
			if ds.Crashed() {
				if resp != nil && resp.Batch != nil {
					rec.Released = hex2(resp.Batch.Transactions)
				}
				rec.Phase += ": died inside the call, response discarded"
				v.Calls = append(v.Calls, rec)
				crashed, crashAt, crashB = true, pS, nonEmpty(rec.Released)
				return nil
			}
			ds.CrashAfter(1 << 40) // the call made fewer writes: it completed, disarm
		}
		var B []string
		if err != nil {
			rec.Err = err.Error()
		} else if resp != nil {
			if resp.Batch != nil {
				B = hex2(resp.Batch.Transactions)
			}
			prevLast, last = last, resp.BatchData
		}
		for _, t := range B {
			rec.Bytes += uint64(len(t))
		}
		rec.Released = B
		v.Calls = append(v.Calls, rec)
		// zero-length blobs are not judged: a sequencer may release them or leave them out (counted)
		if n := len(B); n > 0 {
			B = nonEmpty(B)
			v.zeroRel += n - len(B)
		}
		if len(B) == 0 {
			return nil
		}
		if crashed {
			if limit != 0 && rec.Bytes > limit {
				return fail("size-bound", fmt.Sprintf("step %d: batch of %d bytes released for a requested size of %d: %s", stepIdx, rec.Bytes, limit, shortList(B)))
			}
			crashR = append(crashR, B...)
			return nil
		}
		v.nRelCall++
		if limit == 0 {
			// no size requested: the bound is the sequencer's own default, nothing to compare with
			v.hits["default-limit-call"]++
		} else {
			v.hits["size-bound"]++
			if rec.Bytes > limit {
				return fail("size-bound", fmt.Sprintf("step %d: batch of %d bytes released for a requested size of %d: %s", stepIdx, rec.Bytes, limit, shortList(B)))
			}
		}
		if afterRestart != "" {
			v.hits["restart-continuity"]++
			if afterRestart != "kept" {
				v.hits["restart-continuity-cursor-"+afterRestart]++
			}
			if c.Base > 0 || c.Store != nil {
				v.hits[fmt.Sprintf("restart-continuity-at-%d-digit-heights", len(fmt.Sprint(s.w.head)))]++
			}
			afterRestart = ""
		}
		En := nonEmptyAt(s.w.stream(c.Start, nil))
		Et := nonEmptyAt(s.w.stream(c.Start, s.skipped))
		match := func(E []TxAt, p int) bool {
			if p+len(B) > len(E) {
				return false
			}
			for i, t := range B {
				if E[p+i].Tx != t {
					return false
				}
			}
			return true
		}
		if strictAlive {
			if match(En, pS) {
				v.hits["da-order"] += int64(len(B))
				carry = pS+len(B) < len(En) && En[pS+len(B)].H == En[pS+len(B)-1].H
				if carry {
					v.partial++ // the batch ends inside a height
				}
				for _, t := range B {
					if !printable(t) {
						v.binRel++
					}
				}
				pS += len(B)
			} else {
				strictAlive = false
				id, d := classify(B, En, pS, effLimit(limit))
				strictDeath = fmt.Sprintf("step %d (limit %d): %s", stepIdx, limit, d)
				if strictOnly {
					return fail("da-order", strictDeath)
				}
				if s.pb != nil && s.pb.Call < stepIdx {
					// partial regions: judged by the shape of the first deviation
					v.PushBack = s.pb
					if id != "" {
						v.Kind, v.ID, v.Clause, v.Detail = "finding", id, "da-order", strictDeath
						return v
					}
					return fail("da-order", "after a push-back, deviation of no known shape: "+strictDeath)
				}
			}
		}
		if tolAlive {
			if match(Et, pT) {
				pT += len(B)
			} else {
				tolAlive = false
			}
		}
		if !strictAlive && (!tolAlive || !s.trigSkip()) {
			return fail("da-order", strictDeath)
		}
		return nil
	}

	for i, st := range c.Steps {
		switch st.Kind {
		case "restart":
			v.nRestart++
			if carry {
				v.hits["restart-with-carry-over"]++
			}
			if err := start(); err != nil {
				return fail("restart", "a new sequencer over the same datastore does not start: "+err.Error())
			}
			// what the caller passes back after the restart: the cursor it kept, nothing, or an older one
			switch st.Cursor {
			case "nil":
				v.kinds.WriteString("N")
				last, prevLast = nil, nil
				afterRestart = "nil"
			case "stale":
				v.kinds.WriteString("S")
				last = prevLast
				afterRestart = "stale"
			default:
				v.kinds.WriteString("R")
				afterRestart = "kept"
			}
		case "grow":
			v.kinds.WriteString("g")
			v.nGrow++
			place(st.Grow)
			s.grow(st.Grow)
		case "call":
			for _, e := range st.Errs {
				// error identities vary with the height; a chunk fetch may also fail with a not-found /
				// from-the-future identity (a listed id that is not retrievable yet)
				variant := (int(e.H) + i) % world.RetrieveErrVariants
				if e.Kind == "chunkerr" {
					variant = (int(e.H) + i + e.Chunk) % world.RetrieveErrVariantsAll
				}
				da.ScriptRetrieve(e.H, world.RetrieveOutcome{Kind: e.Kind, Chunk: e.Chunk, ErrVariant: variant})
				v.nErr++
			}
			s.arm(st.Errs)
			wb := s.windowBytes()
			s.call(i, st.Limit)
			switch {
			case len(st.Errs) > 0:
				v.kinds.WriteString("e")
			case st.Limit == 0:
				v.kinds.WriteString("0")
			case st.Limit > wb:
				v.kinds.WriteString("c")
			default:
				v.kinds.WriteString("p")
			}
			armCrash = st.CrashAfter
			cancelAt = st.CancelAtRetrieval
			if r := doCall(i, st.Limit, ""); r != nil {
				return r
			}
		}
	}
	if c.dumpTo != nil {
		// golden writer: record what the sequencer left in the datastore and how far it got
		if strictAlive && !crashed {
			c.dumpTo.record(im, pS, carry, last, prevLast)
		}
		return v
	}
	// bounded progress: the DA is frozen, no faults, the limit admits everything: after enough
	// calls every transaction on DA must have been released
	big := uint64(100000)
	for _, ts := range s.w.content {
		for _, t := range ts {
			big += uint64(len(t))
		}
	}
	if c.DrainLimit != 0 {
		big = c.DrainLimit
		v.hits["drain-with-huge-limit"]++
		if carry {
			v.hits["drain-with-huge-limit-starting-with-carry-over"]++
		}
	}
	En := nonEmptyAt(s.w.stream(c.Start, nil))
	da.ClearRetrieveScript() // "no faults" from here on
	K := int(s.w.head-minU(s.w.head, c.Start)) + 1 + len(En) + 5
	for k := 0; k < K; k++ {
		s.call(len(c.Steps)+k, big)
		if r := doCall(len(c.Steps)+k, big, "drain"); r != nil {
			return r
		}
		if strictAlive && pS == len(En) && k >= 2 {
			break
		}
	}
	if strictAlive && pS < len(En) && !crashed && pacedInVain.Load() < pacedInVainMax {
		// a sequencer that paces its DA requests by the clock answers nothing to calls a few microseconds apart:
		// give it real time before calling it incomplete
		for k := 0; k < 40 && pS < len(En) && strictAlive; k++ {
			time.Sleep(25 * time.Millisecond)
			if r := doCall(len(c.Steps)+K+k, big, "drain-paced"); r != nil {
				return r
			}
		}
		if strictAlive && pS == len(En) {
			v.hits["completed-only-with-pauses"]++
		} else {
			pacedInVain.Add(1)
		}
	}
	if crashed {
		v.CrashKind, v.Detail = evalCrash(crashB, crashR, En[crashAt:])
		if v.CrashKind == "violation:loss" && pacedInVain.Load() < pacedInVainMax {
			// as above: real time for a sequencer that paces itself by the clock, before anything is called lost
			for k := 0; k < 40; k++ {
				time.Sleep(25 * time.Millisecond)
				if r := doCall(len(c.Steps)+K+k, big, "drain-paced"); r != nil {
					return r
				}
			}
			if v.CrashKind, v.Detail = evalCrash(crashB, crashR, En[crashAt:]); v.CrashKind == "violation:loss" {
				pacedInVain.Add(1)
			}
		}
		if strings.HasPrefix(v.CrashKind, "violation:") {
			return fail("crash-inside-"+strings.TrimPrefix(v.CrashKind, "violation:"), v.Detail)
		}
		v.hits["crash-inside-call"]++
		return v
	}
	v.hits["completeness"]++
	v.PushBack = s.pb
	for h := range s.skippedHit {
		v.Skipped = append(v.Skipped, h)
	}
	Et := nonEmptyAt(s.w.stream(c.Start, s.skipped))
	switch {
	case strictAlive && pS == len(En):
		if n := sameBytesInHeight(s.w); n > 0 {
			v.hits["same-bytes-twice-in-one-height-released-twice"] += int64(n)
			if c.ContentIDs {
				v.hits["same-bytes-twice-in-one-height-under-one-id-released-twice"] += int64(n)
			}
		}
		return v
	case !strictOnly && s.trigSkip() && tolAlive && pT == len(Et):
		missing := 0
		for h := range s.skippedHit {
			missing += len(s.w.content[h])
		}
		v.Kind, v.ID, v.Clause = "finding", "C20-skips-unproduced-heights", "completeness"
		v.Detail = fmt.Sprintf("the %d tx of heights %v were never released (%d drain calls without faults); those heights lay inside a scan window while they were still above the DA head; everything else was released in order, once", missing, v.Skipped, K)
		if !strictAlive {
			v.Clause = "da-order"
			v.Detail += "; first gap: " + strictDeath
		}
		return v
	case strictAlive:
		return fail("completeness", fmt.Sprintf("%d of %d tx on DA were never released after %d drain calls without faults (limit %d); next missing: %s at height %d pos %d", len(En)-pS, len(En), K, big, short(En[pS].Tx), En[pS].H, En[pS].Pos))
	}
	return fail("da-order", strictDeath)
}

// evalCrash judges what was released after a call during which the datastore died (B = the response of that call,
// which nobody received; R = everything released afterwards, i.e. after the restart and up to the end of the
// fault-free drain; E = the DA contents from the position before the call, in order, pairwise different).
// The property only speaks of restarts between calls, so a repeated or a never-delivered transaction of that one
// call is an observation. It is a violation when the sequence is damaged for good: a transaction that is on DA
// shows up neither in B nor in R (lost although clean calls followed), R contains something that is not on DA, or
// R is out of DA order in a way that is no repetition (it jumps forward over transactions and comes back to them).
func evalCrash(B, R []string, E []TxAt) (kind, detail string) {
	idx := map[string]int{}
	for i, e := range E {
		idx[e.Tx] = i
	}
	inB := map[int]bool{}
	for _, t := range B {
		if i, ok := idx[t]; ok {
			inB[i] = true
		}
	}
	pos, rewinds, skippedB := 0, 0, 0
	seen := map[int]bool{}
	for k, t := range R {
		i, ok := idx[t]
		if !ok {
			return "violation:foreign", fmt.Sprintf("after the crash, transaction #%d released (%s) is not among the DA contents still to be released", k, short(t))
		}
		switch {
		case i == pos:
		case i < pos:
			rewinds++
		default:
			for j := pos; j < i; j++ {
				if seen[j] {
					continue
				}
				if !inB[j] && seenBefore(R[k:], E[j].Tx) {
					return "violation:reorder", fmt.Sprintf("after the crash, %s was released before the earlier %s (height %d pos %d), which is not in the response of the interrupted call and came only later", short(t), short(E[j].Tx), E[j].H, E[j].Pos)
				}
				if !inB[j] {
					return "violation:loss", fmt.Sprintf("after the crash, %s (height %d pos %d) was passed over: it is neither in the response of the interrupted call %s nor was it released before %s", short(E[j].Tx), E[j].H, E[j].Pos, shortList(B), short(t))
				}
				skippedB++
			}
		}
		seen[i] = true
		pos = i + 1
	}
	for j := range E {
		if !seen[j] && !inB[j] {
			return "violation:loss", fmt.Sprintf("after the crash and the fault-free drain, %s (height %d pos %d) was never released and is not in the response of the interrupted call %s", short(E[j].Tx), E[j].H, E[j].Pos, shortList(B))
		}
	}
	switch {
	case rewinds > 0:
		return "transactions-released-again", fmt.Sprintf("%d jump(s) back in DA order after the restart", rewinds)
	case skippedB > 0 && len(R) > 0 && idx[R[0]] == 0:
		return "response-partly-released-again", ""
	case skippedB > 0:
		return "undelivered-response-not-released-again", fmt.Sprintf("%d tx of the interrupted call's response were not released again", skippedB)
	case len(B) > 0:
		return "undelivered-response-released-again", ""
	}
	return "nothing-in-flight", ""
}

func seenBefore(R []string, t string) bool {
	for _, x := range R {
		if x == t {
			return true
		}
	}
	return false
}

func nonEmpty(ts []string) []string {
	out := ts[:0:0]
	for _, t := range ts {
		if len(t) > 0 {
			out = append(out, t)
		}
	}
	return out
}

func nonEmptyAt(ts []TxAt) []TxAt {
	out := ts[:0:0]
	for _, t := range ts {
		if len(t.Tx) > 0 {
			out = append(out, t)
		}
	}
	return out
}

func minU(a, b uint64) uint64 {
	if a < b {
		return a
	}
	return b
}

// ------------------------------------------------------------------ shrinking

func sig(v *Verdict) string { return v.Kind + "/" + v.Clause + "/" + v.ID }

func cloneCase(c Case) Case {
	n := c
	n.Initial = nil
	for _, ht := range c.Initial {
		n.Initial = append(n.Initial, HeightTxs{H: ht.H, Txs: append([]string(nil), ht.Txs...)})
	}
	n.Steps = nil
	for _, st := range c.Steps {
		m := st
		m.Errs = append([]ErrAt(nil), st.Errs...)
		m.Grow = nil
		for _, ht := range st.Grow {
			m.Grow = append(m.Grow, HeightTxs{H: ht.H, Txs: append([]string(nil), ht.Txs...)})
		}
		n.Steps = append(n.Steps, m)
	}
	return n
}

// shrink drops steps, scripted errors and transactions while the verdict keeps its signature.
func shrink(c Case) Case {
	want := sig(Judge(c))
	try := func(n Case) bool {
		if sig(Judge(n)) == want {
			c = n
			return true
		}
		return false
	}
	for changed := true; changed; {
		changed = false
		for i := len(c.Steps) - 1; i >= 0; i-- {
			n := cloneCase(c)
			n.Steps = append(n.Steps[:i], n.Steps[i+1:]...)
			if try(n) {
				changed = true
			}
		}
		for i := range c.Steps {
			if len(c.Steps[i].Errs) > 0 {
				n := cloneCase(c)
				n.Steps[i].Errs = nil
				if try(n) {
					changed = true
				}
			}
		}
		dropTx := func(get func(n *Case) []HeightTxs) {
			for hi := 0; hi < len(get(&c)); hi++ {
				for ti := len(get(&c)[hi].Txs) - 1; ti >= 0; ti-- {
					n := cloneCase(c)
					hts := get(&n)
					hts[hi].Txs = append(hts[hi].Txs[:ti], hts[hi].Txs[ti+1:]...)
					if try(n) {
						changed = true
					}
				}
			}
		}
		if c.Store != nil {
			continue // the recorded store belongs to exactly these DA contents
		}
		dropTx(func(n *Case) []HeightTxs { return n.Initial })
		for i := range c.Steps {
			if c.Steps[i].Kind == "grow" {
				i := i
				dropTx(func(n *Case) []HeightTxs { return n.Steps[i].Grow })
			}
		}
	}
	return c
}

// ------------------------------------------------------------------ reporting

func describe(c Case) string {
	var sb strings.Builder
	fmt.Fprintf(&sb, "start=%d drift=%d DA{", c.Start, c.Drift)
	hs := func(hts []HeightTxs) string {
		var p []string
		for _, ht := range hts {
			p = append(p, fmt.Sprintf("%d:%s", ht.H, shortList(ht.Txs)))
		}
		return strings.Join(p, " ")
	}
	sb.WriteString(hs(c.Initial) + "} steps[")
	for i, st := range c.Steps {
		if i > 0 {
			sb.WriteString(", ")
		}
		switch st.Kind {
		case "call":
			fmt.Fprintf(&sb, "call(limit %d", st.Limit)
			for _, e := range st.Errs {
				fmt.Fprintf(&sb, " %s@%d", e.Kind, e.H)
			}
			if st.CrashAfter > 0 {
				fmt.Fprintf(&sb, ", datastore dies after %d more write(s)", st.CrashAfter-1)
			}
			sb.WriteString(")")
		case "grow":
			sb.WriteString("grow{" + hs(st.Grow) + "}")
		default:
			sb.WriteString(st.Kind)
			if st.Cursor != "" {
				sb.WriteString("(caller's LastBatchData: " + st.Cursor + ")")
			}
		}
	}
	sb.WriteString("]")
	return sb.String()
}

func released(v *Verdict) string {
	var p []string
	for _, r := range v.Calls {
		p = append(p, shortList(r.Released))
	}
	return strings.Join(p, "")
}

type reporter struct {
	r    *vk.Run
	mu   sync.Mutex
	seen map[string]int
}

func (rp *reporter) limit(sig string, n int) bool {
	rp.mu.Lock()
	defer rp.mu.Unlock()
	rp.seen[sig]++
	return rp.seen[sig] <= n
}

func triggerText(id string) string {
	switch id {
	case "C20-rescan-after-partial":
		return "a call whose scan window (heights c..c+drift from the scan position c) holds more than fits strictly below the call's limit, so that the scan stops inside the window and carries transactions over"
	case "C20-skips-unproduced-heights":
		return "a height lay inside the scan window of a call while it was still above the DA head, and received transactions afterwards"
	}
	return "after a push-back, a call whose limit does not admit the next carried-over transaction while smaller transactions are available at the scan position"
}

func (rp *reporter) handle(c Case, v *Verdict) {
	r := rp.r
	for k, n := range v.hits {
		r.HitN(k, n)
	}
	r.Count("cases_"+c.Region, 1)
	r.Count("calls", int64(len(v.Calls)))
	r.Count("restarts", int64(v.nRestart))
	r.Count("scripted_retrieval_errors", int64(v.nErr))
	r.Count("growth_steps", int64(v.nGrow))
	r.Count("batches_ending_inside_a_height_"+c.Region, int64(v.partial))
	var txs int64
	for _, cr := range v.Calls {
		txs += int64(len(cr.Released))
	}
	r.Count("txs_released", txs)
	if v.CrashKind != "" {
		r.Count("after_crash_inside_call:"+v.CrashKind, 1)
	}
	r.Count("non_text_txs_released_in_order", int64(v.binRel))
	r.Count("zero_length_blobs_released", int64(v.zeroRel))
	for _, cr := range v.Calls {
		for _, t := range cr.Released {
			if len(t) >= 256<<10 {
				r.Count("large_txs_released", 1)
			}
		}
	}
	nontrivial := v.nRelCall >= 2 && (v.nRestart+v.nErr+v.nGrow+v.partial > 0)
	r.Eval(fmt.Sprintf("%s/s%d/d%d/%s", c.Region, c.Start, c.Drift, v.kinds.String()), nontrivial,
		map[string]any{"region": c.Region, "case": describe(c), "released": released(v), "verdict": v.Kind})
	w := func(cc Case, vv *Verdict) map[string]any {
		pb, skips := Triggers(cc)
		return map[string]any{"case": cc, "verdict": vv, "trigger_push_back": pb, "trigger_skipped_heights_filled_later": skips}
	}
	switch v.Kind {
	case "inconclusive":
		r.Inconclusive(v.Detail)
	case "pass":
		if c.Region != "clean" {
			r.Count("trigger_case_without_failure", 1)
		}
	case "finding":
		r.Count("reproduced:"+v.ID, 1)
		if c.Region == "clean" {
			// cannot happen: shapes are only considered after a trigger
			rp.violation(c, v, w)
			return
		}
		first := rp.limit("finding/"+v.ID, 1)
		if !first && !r.IsKnown(v.ID) {
			return
		}
		small, sv := c, v
		if first {
			small = shrink(c)
			sv = Judge(small)
		}
		ww := w(small, sv)
		ww["trigger"] = triggerText(v.ID)
		r.Finding(sv.ID, sv.Clause, fmt.Sprintf("%s released=%s: %s", describe(small), released(sv), sv.Detail), ww)
	case "violation":
		rp.violation(c, v, w)
	}
}

func (rp *reporter) violation(c Case, v *Verdict, w func(Case, *Verdict) map[string]any) {
	if !rp.limit("violation/"+v.Clause, 4) {
		rp.r.Count("violations_not_listed:"+v.Clause, 1)
		return
	}
	small, sv := c, v
	if v.Kind == "violation" {
		small = shrink(c)
		sv = Judge(small)
	}
	ww := w(small, sv)
	ww["original_case"] = c
	rp.r.Violation(sv.Clause, fmt.Sprintf("region=%s %s released=%s: %s", c.Region, describe(small), released(sv), sv.Detail), ww)
}

func pool(n int, f func(i int)) {
	var wg sync.WaitGroup
	ch := make(chan int)
	for w := 0; w < 12; w++ {
		wg.Add(1)
		go func() {
			defer wg.Done()
			for i := range ch {
				f(i)
			}
		}()
	}
	for i := 0; i < n; i++ {
		ch <- i
	}
	close(ch)
	wg.Wait()
}

// Run is the check entry point.
func Run(r *vk.Run) {
	world.Silence()
	if os.Getenv("VERIF_C20_WRITE_GOLDEN") == "1" {
		os.Exit(writeGolden())
	}
	r.Rule = "seeded cases: DA contents of 1-8 initial heights x 0-6 txs of 1-60 bytes (empty heights included), start height 0|1|3, max height drift 0|1|2|5, 4-17 steps {GetNextBatch(limit, LastBatchData passed back as the block manager does) with optional scripted retrieval errors | restart (new Sequencer on the same datastore) | DA growth above the head}, then a drain phase with a limit above everything; " +
		"non-trivial = >= 2 calls released txs and >= 1 restart, retrieval error, growth step or batch ending inside a height; distinct by (region, start, drift, step-kind sequence: c call covering its window | p call with limit below its window content | e call with errors | R restart | g growth). " +
		"Regions: clean = no call's scan window reaches the call's limit and no height passed while unproduced is filled later; skips-unproduced = the latter happens (limits still above the windows); partial-fit / oversize = some window reaches the limit (limits >= every tx / limits below single txs); free = no regard to the window model: any limit (below a tx, exactly a tx, none = default), retrieval errors (7 listing / 11 chunk identities) and DA growth at any time incl. after a carry-over, now and then a height with 101-230 txs (several id chunks) or one 256 KiB tx. " +
		"In every region half of the cases mix in non-text transactions (zero bytes, 0xFF runs, random bytes, invalid UTF-8, JSON metacharacters, U+FFFD, zero-length blobs), and after a restart the caller passes back the LastBatchData it kept, none (lost) or the one before (stale); some calls request no size (MaxBytes=0). Zero-length blobs are not judged (may be released or left out); a call without a requested size is not judged for size. " +
		"Wide dimensions (own random stream, n/4 clean-region and free cases + n/32 directed 'carry-over, [restart,] huge limit' cases): heights that hold the same bytes at two positions and bytes that recur at later heights, on a DA double whose ids are content-derived (height + sha256, both copies under one id, as the repository's DummyDA) or per blob; limits 2^31, 2^32, 2^63, 2^64-1 and neighbours as call limits and as the drain limit; every height of half of these cases shifted to bases of 6-20 decimal digits (across 10^7, 10^8, 2^32, 10^18, 2^63, 10^19, up to 1615 below 2^64). " +
		"Recorded stores: 60 datastores that the pinned tree left behind at heights of 1-20 digits (golden/c20/stores.json: DA contents, image, released count, caller's LastBatchData; with and without a persisted carry-over), each continued 6 (60) times with 0-5 seeded steps and the drain."
	r.Assume("DA layer is the DADouble: heights at or below the head are immutable, growth only above the head; retrieval errors are transient (listing error or chunk error), never a lie about contents")
	r.Assume("datastore is the in-memory MemDS double; a restart is a new Sequencer over the same image")
	r.Assume("bounded progress: with the DA frozen, no faults and a limit above everything, (heights + txs + 5) calls must release everything up to the head")
	r.Assume("an upgrade is a restart: a datastore written by the pinned tree must be continued by today's code (recorded stores); the check never looks into the image")
	r.Assume("clean region of today's tree is narrow: every call's limit exceeds the content of its whole scan window, so no batch ever ends inside a height there (any carry-over triggers C20-rescan-after-partial)")
	rp := &reporter{r: r, seen: map[string]int{}}

	n := r.N(40000, 400000)
	nClean := n / 2
	nSkip := n * 15 / 100
	nPart := n * 20 / 100
	nOver := n - nClean - nSkip - nPart
	g := &gen{rng: r.Rand("cases")}
	mk := func(region string, k, base int) []Case {
		out := make([]Case, k)
		for i := range out {
			out[i] = g.genCase(base+i, region)
		}
		return out
	}
	clean := mk("clean", nClean, 0)
	skip := mk("skips-unproduced", nSkip, nClean)
	part := mk("partial-fit", nPart, nClean+nSkip)
	over := mk("oversize", nOver, nClean+nSkip+nPart)

	nFree := n / 4
	free := make([]Case, nFree)
	for i := range free {
		free[i] = g.genFree(n + i)
	}

	r.Require("da-order", int64(nClean*3))
	r.Require("size-bound", int64(nClean*2))
	r.Require("restart-continuity", int64(nClean/2))
	r.Require("completeness", int64(nClean))
	r.Require("restart-continuity-cursor-nil", int64(n/40))
	r.Require("restart-continuity-cursor-stale", int64(n/40))
	r.Require("restart-with-carry-over", int64(n/40))
	r.Require("default-limit-call", int64(n/40))

	// 1. clean region: every failure is a violation
	pool(len(clean), func(i int) { rp.handle(clean[i], Judge(clean[i])) })
	// 2. trigger regions, the smallest known reproductions first
	for _, c := range directed() {
		rp.handle(c, Judge(c))
	}
	pool(len(skip), func(i int) { rp.handle(skip[i], Judge(skip[i])) })
	pool(len(part), func(i int) { rp.handle(part[i], Judge(part[i])) })
	pool(len(over), func(i int) { rp.handle(over[i], Judge(over[i])) })
	// 3. free region: judged by the stream oracle alone, every failure is a violation
	pool(len(free), func(i int) { rp.handle(free[i], Judge(free[i])) })
	// 4. crash experiment: the datastore dies inside a call. Outside the property's quantifier ("restarts between
	// any two calls"): repeated or undelivered transactions of that call are counted, only lasting damage is judged
	crash := make([]Case, n/8)
	for i := range crash {
		crash[i] = g.genCrash(n + nFree + i)
	}
	pool(len(crash), func(i int) { rp.handle(crash[i], Judge(crash[i])) })

	// 5. wide dimensions (wide.go), from their own random stream: repeated bytes inside a height and across heights
	// on content-derived or per-blob ids, limits at the edges of the integer types, large DA heights
	gw := &gen{rng: r.Rand("wide")}
	nWide := n / 4
	wide := make([]Case, 0, nWide+nWide/8)
	for i := 0; i < nWide; i++ {
		wide = append(wide, gw.genWide(2*n+i))
	}
	for i := 0; i < nWide/8; i++ {
		wide = append(wide, gw.carryThenHuge(2*n+nWide+i))
	}
	r.Require("huge-limit-call-with-carry-over", int64(nWide/16))
	r.Require("huge-limit-call-with-carry-over-after-restart", int64(nWide/64))
	r.Require("drain-with-huge-limit-starting-with-carry-over", int64(nWide/64))
	r.Require("same-bytes-twice-in-one-height-under-one-id-released-twice", int64(nWide/8))
	for _, d := range []int{7, 8, 9, 10, 19, 20} {
		r.Require(fmt.Sprintf("restart-continuity-at-%d-digit-heights", d), int64(nWide/200))
	}
	pool(len(wide), func(i int) { rp.handle(wide[i], Judge(wide[i])) })

	// 6. histories that start on a datastore written by the pinned tree (golden.go)
	stores, err := readGolden()
	if err != nil {
		r.Inconclusive("recorded stores not usable: " + err.Error())
		return
	}
	r.Set("recorded_stores", len(stores))
	rs := r.Rand("stores")
	per := r.N(6, 60)
	var sc []Case
	for i := range stores {
		for k := 0; k < per; k++ {
			sc = append(sc, storeCase(rs, 3*n+len(sc), &stores[i]))
		}
	}
	r.Require("start-on-store-written-by-pinned-tree", int64(len(sc)))
	r.Require("start-on-store-written-by-pinned-tree-with-carry-over", int64(len(sc)/4))
	pool(len(sc), func(i int) { rp.handle(sc[i], Judge(sc[i])) })
}
