// Package c20 decides C20: the based sequencer releases the DA contents in DA order, each
// transaction once, within the requested size, carrying over what did not fit, across restarts
// (see /verif/DESIGN.md §7).
//
// Files: model.go (the harness's record of the DA contents, the window model behind the trigger
// predicates, the predicted shapes), c20.go (generator, execution against the real sequencer,
// oracle, reporting).
package c20

import (
	"context"
	"fmt"
	"math/rand"
	"strings"
	"sync"

	logging "github.com/ipfs/go-log/v2"

	coresequencer "github.com/evstack/ev-node/core/sequencer"
	"github.com/evstack/ev-node/sequencers/based"

	"verifharness/vk"
	"verifharness/world"
)

// Level is the verification level claimed for this property.
const Level = "exploration"

const chainID = "c20-chain"

var seqLogger = logging.Logger("c20")

// ------------------------------------------------------------------ generation

type gen struct {
	rng    *rand.Rand
	uniq   int
	used   map[string]bool // contents used in the current case
	unique bool            // trigger regions: all transaction contents of a case are pairwise different
}

const txAlphabet = "abcdefghijklmnopqrstuvwxyzABCDEFGHIJKLMNOPQRSTUVWXYZ0123456789"

// tx draws a transaction of 1..maxSize bytes. In the clean region small transactions repeat
// often (4-letter alphabet); in the trigger regions contents are pairwise different so that the
// shape of a deviation can be read off without ambiguity.
func (g *gen) tx(maxSize int) string {
	n := 1 + g.rng.Intn(maxSize)
	if g.rng.Intn(6) == 0 {
		n = 1 + g.rng.Intn(3)
	}
	for try := 0; ; try++ {
		g.uniq++
		id := fmt.Sprintf("%x.", g.uniq)
		b := make([]byte, n)
		for i := range b {
			switch {
			case i < len(id) && n >= len(id)+1:
				b[i] = id[i]
			case g.unique:
				b[i] = txAlphabet[g.rng.Intn(len(txAlphabet))]
			default:
				b[i] = byte('a' + g.rng.Intn(4))
			}
		}
		t := string(b)
		if !g.unique || !g.used[t] {
			g.used[t] = true
			return t
		}
		if try%8 == 7 {
			n++
		}
	}
}

func (g *gen) height(h uint64, maxTx, maxSize int) HeightTxs {
	ht := HeightTxs{H: h}
	if g.rng.Intn(4) == 0 {
		return ht // empty height
	}
	n := g.rng.Intn(maxTx + 1)
	for i := 0; i < n; i++ {
		ht.Txs = append(ht.Txs, g.tx(maxSize))
	}
	return ht
}

func totalBytes(hts []HeightTxs) uint64 {
	var n uint64
	for _, ht := range hts {
		for _, t := range ht.Txs {
			n += uint64(len(t))
		}
	}
	return n
}

func maxTx(w *daWorld) uint64 {
	var m uint64
	for _, ts := range w.content {
		for _, t := range ts {
			if uint64(len(t)) > m {
				m = uint64(len(t))
			}
		}
	}
	return m
}

// genCase generates one case of the given region. Clean and skips-unproduced cases never let a
// window content reach the limit; partial-fit and oversize cases do so on purpose.
func (g *gen) genCase(id int, region string) Case {
	for {
		c := g.genOnce(id, region)
		pb, skips := Triggers(c)
		switch region {
		case "clean":
			if pb == nil && len(skips) == 0 {
				return c
			}
		case "skips-unproduced":
			if pb == nil && len(skips) > 0 {
				return c
			}
		default:
			if pb != nil && len(skips) == 0 {
				return c
			}
		}
	}
}

func (g *gen) genOnce(id int, region string) Case {
	rng := g.rng
	g.used = map[string]bool{}
	g.unique = region != "clean"
	c := Case{ID: id, Region: region, Start: []uint64{0, 1, 1, 3}[rng.Intn(4)], Drift: []uint64{0, 0, 1, 2, 5}[rng.Intn(5)]}
	first := c.Start
	if first == 0 {
		first = 1
	}
	maxSize := []int{60, 60, 12, 4}[rng.Intn(4)]
	nInit := 1 + rng.Intn(8)
	for i := 0; i < nInit; i++ {
		c.Initial = append(c.Initial, g.height(first+uint64(i), 6, maxSize))
	}
	s := newSim(c)
	nSteps := 4 + rng.Intn(14)
	natural := rng.Intn(2) == 0 // clean cases of the natural kind: the DA head stays ahead of the scan
	for len(c.Steps) < nSteps {
		p := rng.Intn(100)
		switch {
		case p < 18:
			c.Steps = append(c.Steps, Step{Kind: "restart"})
		case p < 38:
			if s.pb != nil {
				// partial regions: the DA is static once the first push-back has happened (the
				// window model ends there, so the skip trigger could no longer be excluded)
				continue
			}
			// DA growth: 1-3 new heights above the head
			lo := s.w.head + 1
			switch region {
			case "skips-unproduced":
				// may fill heights the scan has already passed
			default:
				if s.cursor > lo {
					lo = s.cursor // never behind the scan position
				}
			}
			if region != "skips-unproduced" && rng.Intn(3) == 0 {
				lo += uint64(rng.Intn(3))
			}
			var hts []HeightTxs
			n := 1 + rng.Intn(3)
			for i := 0; i < n; i++ {
				hts = append(hts, g.height(lo+uint64(i), 6, maxSize))
			}
			c.Steps = append(c.Steps, Step{Kind: "grow", Grow: hts})
			s.grow(hts)
		default:
			if (region == "clean" && natural) && s.cursor+s.drift > s.w.head {
				// keep the head ahead of the window: produce the missing heights first
				var hts []HeightTxs
				for h := s.w.head + 1; h <= s.cursor+s.drift; h++ {
					hts = append(hts, g.height(h, 6, maxSize))
				}
				c.Steps = append(c.Steps, Step{Kind: "grow", Grow: hts})
				s.grow(hts)
			}
			st := Step{Kind: "call"}
			// scripted retrieval errors inside the coming window
			if rng.Intn(100) < 25 && s.pb == nil {
				n := 1 + rng.Intn(2)
				for i := 0; i < n; i++ {
					h := s.cursor + uint64(rng.Intn(int(s.drift)+1))
					if h > s.w.head {
						continue
					}
					kind := "listerr"
					if len(s.w.content[h]) > 0 && rng.Intn(2) == 0 {
						kind = "chunkerr"
					}
					st.Errs = append(st.Errs, ErrAt{H: h, Kind: kind})
				}
			}
			s.arm(st.Errs)
			wb := s.windowBytes()
			switch region {
			case "clean", "skips-unproduced":
				st.Limit = wb + 1 + uint64(rng.Intn(40))
				if rng.Intn(4) == 0 {
					st.Limit = wb + 1 // tightest limit that still covers the window
				}
				if rng.Intn(6) == 0 {
					st.Limit = wb + 100000
				}
			case "partial-fit":
				// never below the largest transaction: everything fits some batch
				m := maxTx(s.w) + 1
				st.Limit = m + uint64(rng.Intn(int(wb/2+2)))
				if rng.Intn(4) == 0 {
					st.Limit = wb + 1 + uint64(rng.Intn(20))
				}
			case "oversize":
				m := maxTx(s.w)
				if m < 2 {
					m = 2
				}
				st.Limit = 1 + uint64(rng.Intn(int(m)))
				if rng.Intn(3) == 0 {
					st.Limit = m + uint64(rng.Intn(int(wb/2+2)))
				}
			}
			s.call(len(c.Steps), st.Limit)
			c.Steps = append(c.Steps, st)
		}
	}
	return c
}

// directed returns the smallest reproductions known of the three recorded findings.
func directed() []Case {
	call := func(l uint64) Step { return Step{Kind: "call", Limit: l} }
	return []Case{
		{ID: -1, Region: "partial-fit", Start: 1, Drift: 0, Initial: []HeightTxs{{H: 1, Txs: []string{"aa", "bb", "cc"}}, {H: 2, Txs: []string{"dd"}}},
			Steps: []Step{call(5), call(5), call(5), call(5)}},
		{ID: -2, Region: "skips-unproduced", Start: 1, Drift: 1, Initial: []HeightTxs{{H: 1, Txs: []string{"a"}}},
			Steps: []Step{call(100), {Kind: "grow", Grow: []HeightTxs{{H: 2, Txs: []string{"b"}}}}, call(100)}},
		{ID: -3, Region: "oversize", Start: 1, Drift: 0, Initial: []HeightTxs{{H: 1, Txs: []string{"a", "BIGGG"}}},
			Steps: []Step{call(3), call(3), call(3)}},
	}
}

// ------------------------------------------------------------------ execution and oracle

// CallRec is one observed GetNextBatch.
type CallRec struct {
	Step     int      `json:"step"`
	Limit    uint64   `json:"limit"`
	Head     uint64   `json:"da_head"`
	Released []string `json:"released"`
	Bytes    uint64   `json:"bytes"`
	Err      string   `json:"err,omitempty"`
	Phase    string   `json:"phase,omitempty"`
}

// Verdict is the judgement of one case.
type Verdict struct {
	Kind     string    `json:"verdict"` // pass | finding | violation
	Clause   string    `json:"clause,omitempty"`
	ID       string    `json:"finding_id,omitempty"`
	Detail   string    `json:"detail,omitempty"`
	Calls    []CallRec `json:"calls"`
	PushBack *pushBack `json:"model_push_back,omitempty"`
	Skipped  []uint64  `json:"model_skipped_heights_filled_later,omitempty"`
	hits     map[string]int64
	nRestart int
	nErr     int
	nGrow    int
	nRelCall int
	partial  int
	kinds    strings.Builder
}

func hex2(ts [][]byte) []string {
	out := make([]string, len(ts))
	for i, t := range ts {
		out[i] = string(t)
	}
	return out
}

// Judge runs the case against the real based sequencer and judges it.
func Judge(c Case) *Verdict {
	v := &Verdict{Kind: "pass", hits: map[string]int64{}}
	ctx := context.Background()
	im := world.NewImage()
	da := world.NewDADouble()
	s := newSim(c) // window model (trigger predicates) and the harness's record of the DA contents
	place := func(hts []HeightTxs) {
		for _, ht := range hts {
			if len(ht.Txs) == 0 {
				da.SetHeight(ht.H)
				continue
			}
			blobs := make([][]byte, len(ht.Txs))
			for i, t := range ht.Txs {
				blobs[i] = []byte(t)
			}
			da.Place(ht.H, blobs...)
		}
	}
	place(c.Initial)
	var ds *world.MemDS
	var seq *based.Sequencer
	start := func() error {
		if ds != nil {
			ds.CrashNow()
		}
		ds = world.NewMemDS(im)
		var err error
		seq, err = based.NewSequencer(seqLogger, da, []byte(chainID), c.Start, c.Drift, ds)
		return err
	}
	fail := func(clause, detail string) *Verdict {
		v.Kind, v.Clause, v.Detail = "violation", clause, detail
		v.PushBack = s.pb
		return v
	}
	if err := start(); err != nil {
		return fail("startup", err.Error())
	}
	var last [][]byte
	pS, pT := 0, 0 // released so far according to the strict / the skip-tolerant expectation
	strictAlive, tolAlive := true, true
	strictDeath := ""
	afterRestart := false

	// doCall performs one GetNextBatch and judges the batch. It returns a final verdict or nil.
	doCall := func(stepIdx int, limit uint64, phase string) *Verdict {
		resp, err := seq.GetNextBatch(ctx, coresequencer.GetNextBatchRequest{Id: []byte(chainID), LastBatchData: last, MaxBytes: limit})
		rec := CallRec{Step: stepIdx, Limit: limit, Head: s.w.head, Phase: phase}
		var B []string
		if err != nil {
			rec.Err = err.Error()
		} else if resp != nil {
			if resp.Batch != nil {
				B = hex2(resp.Batch.Transactions)
			}
			last = resp.BatchData
		}
		for _, t := range B {
			rec.Bytes += uint64(len(t))
		}
		rec.Released = B
		v.Calls = append(v.Calls, rec)
		if len(B) == 0 {
			return nil
		}
		v.nRelCall++
		v.hits["size-bound"]++
		if rec.Bytes > limit {
			return fail("size-bound", fmt.Sprintf("step %d: batch of %d bytes released for a requested size of %d: %s", stepIdx, rec.Bytes, limit, shortList(B)))
		}
		if afterRestart {
			v.hits["restart-continuity"]++
			afterRestart = false
		}
		En := s.w.stream(c.Start, nil)
		Et := s.w.stream(c.Start, s.skipped)
		match := func(E []TxAt, p int) bool {
			if p+len(B) > len(E) {
				return false
			}
			for i, t := range B {
				if E[p+i].Tx != t {
					return false
				}
			}
			return true
		}
		if strictAlive {
			if match(En, pS) {
				v.hits["da-order"] += int64(len(B))
				if pS+len(B) < len(En) && En[pS+len(B)].H == En[pS+len(B)-1].H {
					v.partial++ // the batch ends inside a height
				}
				pS += len(B)
			} else {
				strictAlive = false
				id, d := classify(B, En, pS, limit)
				strictDeath = fmt.Sprintf("step %d (limit %d): %s", stepIdx, limit, d)
				if s.pb != nil && s.pb.Call < stepIdx {
					// partial regions: judged by the shape of the first deviation
					v.PushBack = s.pb
					if id != "" {
						v.Kind, v.ID, v.Clause, v.Detail = "finding", id, "da-order", strictDeath
						return v
					}
					return fail("da-order", "after a push-back, deviation of no known shape: "+strictDeath)
				}
			}
		}
		if tolAlive {
			if match(Et, pT) {
				pT += len(B)
			} else {
				tolAlive = false
			}
		}
		if !strictAlive && (!tolAlive || !s.trigSkip()) {
			return fail("da-order", strictDeath)
		}
		return nil
	}

	for i, st := range c.Steps {
		switch st.Kind {
		case "restart":
			v.kinds.WriteString("R")
			v.nRestart++
			afterRestart = true
			if err := start(); err != nil {
				return fail("restart", "a new sequencer over the same datastore does not start: "+err.Error())
			}
		case "grow":
			v.kinds.WriteString("g")
			v.nGrow++
			place(st.Grow)
			s.grow(st.Grow)
		case "call":
			for _, e := range st.Errs {
				da.ScriptRetrieve(e.H, world.RetrieveOutcome{Kind: e.Kind})
				v.nErr++
			}
			s.arm(st.Errs)
			wb := s.windowBytes()
			s.call(i, st.Limit)
			switch {
			case len(st.Errs) > 0:
				v.kinds.WriteString("e")
			case st.Limit > wb:
				v.kinds.WriteString("c")
			default:
				v.kinds.WriteString("p")
			}
			if r := doCall(i, st.Limit, ""); r != nil {
				return r
			}
		}
	}
	// bounded progress: the DA is frozen, no faults, the limit admits everything: after enough
	// calls every transaction on DA must have been released
	big := uint64(100000)
	for _, ts := range s.w.content {
		for _, t := range ts {
			big += uint64(len(t))
		}
	}
	En := s.w.stream(c.Start, nil)
	K := int(s.w.head-minU(s.w.head, c.Start)) + 1 + len(En) + 5
	for k := 0; k < K; k++ {
		s.call(len(c.Steps)+k, big)
		if r := doCall(len(c.Steps)+k, big, "drain"); r != nil {
			return r
		}
		if strictAlive && pS == len(En) && k >= 2 {
			break
		}
	}
	v.hits["completeness"]++
	v.PushBack = s.pb
	for h := range s.skippedHit {
		v.Skipped = append(v.Skipped, h)
	}
	Et := s.w.stream(c.Start, s.skipped)
	switch {
	case strictAlive && pS == len(En):
		return v
	case s.trigSkip() && tolAlive && pT == len(Et):
		missing := 0
		for h := range s.skippedHit {
			missing += len(s.w.content[h])
		}
		v.Kind, v.ID, v.Clause = "finding", "C20-skips-unproduced-heights", "completeness"
		v.Detail = fmt.Sprintf("the %d tx of heights %v were never released (%d drain calls without faults); those heights lay inside a scan window while they were still above the DA head; everything else was released in order, once", missing, v.Skipped, K)
		if !strictAlive {
			v.Clause = "da-order"
			v.Detail += "; first gap: " + strictDeath
		}
		return v
	case strictAlive:
		return fail("completeness", fmt.Sprintf("%d of %d tx on DA were never released after %d drain calls without faults (limit %d); next missing: %s at height %d pos %d", len(En)-pS, len(En), K, big, short(En[pS].Tx), En[pS].H, En[pS].Pos))
	}
	return fail("da-order", strictDeath)
}

func minU(a, b uint64) uint64 {
	if a < b {
		return a
	}
	return b
}

// ------------------------------------------------------------------ shrinking

func sig(v *Verdict) string { return v.Kind + "/" + v.Clause + "/" + v.ID }

func cloneCase(c Case) Case {
	n := c
	n.Initial = nil
	for _, ht := range c.Initial {
		n.Initial = append(n.Initial, HeightTxs{H: ht.H, Txs: append([]string(nil), ht.Txs...)})
	}
	n.Steps = nil
	for _, st := range c.Steps {
		m := st
		m.Errs = append([]ErrAt(nil), st.Errs...)
		m.Grow = nil
		for _, ht := range st.Grow {
			m.Grow = append(m.Grow, HeightTxs{H: ht.H, Txs: append([]string(nil), ht.Txs...)})
		}
		n.Steps = append(n.Steps, m)
	}
	return n
}

// shrink drops steps, scripted errors and transactions while the verdict keeps its signature.
func shrink(c Case) Case {
	want := sig(Judge(c))
	try := func(n Case) bool {
		if sig(Judge(n)) == want {
			c = n
			return true
		}
		return false
	}
	for changed := true; changed; {
		changed = false
		for i := len(c.Steps) - 1; i >= 0; i-- {
			n := cloneCase(c)
			n.Steps = append(n.Steps[:i], n.Steps[i+1:]...)
			if try(n) {
				changed = true
			}
		}
		for i := range c.Steps {
			if len(c.Steps[i].Errs) > 0 {
				n := cloneCase(c)
				n.Steps[i].Errs = nil
				if try(n) {
					changed = true
				}
			}
		}
		dropTx := func(get func(n *Case) []HeightTxs) {
			for hi := 0; hi < len(get(&c)); hi++ {
				for ti := len(get(&c)[hi].Txs) - 1; ti >= 0; ti-- {
					n := cloneCase(c)
					hts := get(&n)
					hts[hi].Txs = append(hts[hi].Txs[:ti], hts[hi].Txs[ti+1:]...)
					if try(n) {
						changed = true
					}
				}
			}
		}
		dropTx(func(n *Case) []HeightTxs { return n.Initial })
		for i := range c.Steps {
			if c.Steps[i].Kind == "grow" {
				i := i
				dropTx(func(n *Case) []HeightTxs { return n.Steps[i].Grow })
			}
		}
	}
	return c
}

// ------------------------------------------------------------------ reporting

func describe(c Case) string {
	var sb strings.Builder
	fmt.Fprintf(&sb, "start=%d drift=%d DA{", c.Start, c.Drift)
	hs := func(hts []HeightTxs) string {
		var p []string
		for _, ht := range hts {
			p = append(p, fmt.Sprintf("%d:%s", ht.H, shortList(ht.Txs)))
		}
		return strings.Join(p, " ")
	}
	sb.WriteString(hs(c.Initial) + "} steps[")
	for i, st := range c.Steps {
		if i > 0 {
			sb.WriteString(", ")
		}
		switch st.Kind {
		case "call":
			fmt.Fprintf(&sb, "call(limit %d", st.Limit)
			for _, e := range st.Errs {
				fmt.Fprintf(&sb, " %s@%d", e.Kind, e.H)
			}
			sb.WriteString(")")
		case "grow":
			sb.WriteString("grow{" + hs(st.Grow) + "}")
		default:
			sb.WriteString(st.Kind)
		}
	}
	sb.WriteString("]")
	return sb.String()
}

func released(v *Verdict) string {
	var p []string
	for _, r := range v.Calls {
		p = append(p, shortList(r.Released))
	}
	return strings.Join(p, "")
}

type reporter struct {
	r    *vk.Run
	mu   sync.Mutex
	seen map[string]int
}

func (rp *reporter) limit(sig string, n int) bool {
	rp.mu.Lock()
	defer rp.mu.Unlock()
	rp.seen[sig]++
	return rp.seen[sig] <= n
}

func triggerText(id string) string {
	switch id {
	case "C20-rescan-after-partial":
		return "a call whose scan window (heights c..c+drift from the scan position c) holds more than fits strictly below the call's limit, so that the scan stops inside the window and carries transactions over"
	case "C20-skips-unproduced-heights":
		return "a height lay inside the scan window of a call while it was still above the DA head, and received transactions afterwards"
	}
	return "after a push-back, a call whose limit does not admit the next carried-over transaction while smaller transactions are available at the scan position"
}

func (rp *reporter) handle(c Case, v *Verdict) {
	r := rp.r
	for k, n := range v.hits {
		r.HitN(k, n)
	}
	r.Count("cases_"+c.Region, 1)
	r.Count("calls", int64(len(v.Calls)))
	r.Count("restarts", int64(v.nRestart))
	r.Count("scripted_retrieval_errors", int64(v.nErr))
	r.Count("growth_steps", int64(v.nGrow))
	r.Count("batches_ending_inside_a_height_"+c.Region, int64(v.partial))
	var txs int64
	for _, cr := range v.Calls {
		txs += int64(len(cr.Released))
	}
	r.Count("txs_released", txs)
	nontrivial := v.nRelCall >= 2 && (v.nRestart+v.nErr+v.nGrow+v.partial > 0)
	r.Eval(fmt.Sprintf("%s/s%d/d%d/%s", c.Region, c.Start, c.Drift, v.kinds.String()), nontrivial,
		map[string]any{"region": c.Region, "case": describe(c), "released": released(v), "verdict": v.Kind})
	w := func(cc Case, vv *Verdict) map[string]any {
		pb, skips := Triggers(cc)
		return map[string]any{"case": cc, "verdict": vv, "trigger_push_back": pb, "trigger_skipped_heights_filled_later": skips}
	}
	switch v.Kind {
	case "pass":
		if c.Region != "clean" {
			r.Count("trigger_case_without_failure", 1)
		}
	case "finding":
		r.Count("reproduced:"+v.ID, 1)
		if c.Region == "clean" {
			// cannot happen: shapes are only considered after a trigger
			rp.violation(c, v, w)
			return
		}
		first := rp.limit("finding/"+v.ID, 1)
		if !first && !r.IsKnown(v.ID) {
			return
		}
		small, sv := c, v
		if first {
			small = shrink(c)
			sv = Judge(small)
		}
		ww := w(small, sv)
		ww["trigger"] = triggerText(v.ID)
		r.Finding(sv.ID, sv.Clause, fmt.Sprintf("%s released=%s: %s", describe(small), released(sv), sv.Detail), ww)
	case "violation":
		rp.violation(c, v, w)
	}
}

func (rp *reporter) violation(c Case, v *Verdict, w func(Case, *Verdict) map[string]any) {
	if !rp.limit("violation/"+v.Clause, 4) {
		rp.r.Count("violations_not_listed:"+v.Clause, 1)
		return
	}
	small, sv := c, v
	if v.Kind == "violation" {
		small = shrink(c)
		sv = Judge(small)
	}
	ww := w(small, sv)
	ww["original_case"] = c
	rp.r.Violation(sv.Clause, fmt.Sprintf("region=%s %s released=%s: %s", c.Region, describe(small), released(sv), sv.Detail), ww)
}

func pool(n int, f func(i int)) {
	var wg sync.WaitGroup
	ch := make(chan int)
	for w := 0; w < 12; w++ {
		wg.Add(1)
		go func() {
			defer wg.Done()
			for i := range ch {
				f(i)
			}
		}()
	}
	for i := 0; i < n; i++ {
		ch <- i
	}
	close(ch)
	wg.Wait()
}

// Run is the check entry point.
func Run(r *vk.Run) {
	world.Silence()
	r.Rule = "seeded cases: DA contents of 1-8 initial heights x 0-6 txs of 1-60 bytes (empty heights included), start height 0|1|3, max height drift 0|1|2|5, 4-17 steps {GetNextBatch(limit, LastBatchData passed back as the block manager does) with optional scripted retrieval errors | restart (new Sequencer on the same datastore) | DA growth above the head}, then a drain phase with a limit above everything; " +
		"non-trivial = >= 2 calls released txs and >= 1 restart, retrieval error, growth step or batch ending inside a height; distinct by (region, start, drift, step-kind sequence: c call covering its window | p call with limit below its window content | e call with errors | R restart | g growth). " +
		"Regions: clean = no call's scan window reaches the call's limit and no height passed while unproduced is filled later; skips-unproduced = the latter happens (limits still above the windows); partial-fit / oversize = some window reaches the limit (limits >= every tx / limits below single txs)."
	r.Assume("DA layer is the DADouble: heights at or below the head are immutable, growth only above the head; retrieval errors are transient (listing error or chunk error), never a lie about contents")
	r.Assume("datastore is the in-memory MemDS double; a restart is a new Sequencer over the same image")
	r.Assume("bounded progress: with the DA frozen, no faults and a limit above everything, (heights + txs + 5) calls must release everything up to the head")
	r.Assume("clean region of today's tree is narrow: every call's limit exceeds the content of its whole scan window, so no batch ever ends inside a height there (any carry-over triggers C20-rescan-after-partial)")
	rp := &reporter{r: r, seen: map[string]int{}}

	n := r.N(4000, 200000)
	nClean := n / 2
	nSkip := n * 15 / 100
	nPart := n * 20 / 100
	nOver := n - nClean - nSkip - nPart
	g := &gen{rng: r.Rand("cases")}
	mk := func(region string, k, base int) []Case {
		out := make([]Case, k)
		for i := range out {
			out[i] = g.genCase(base+i, region)
		}
		return out
	}
	clean := mk("clean", nClean, 0)
	skip := mk("skips-unproduced", nSkip, nClean)
	part := mk("partial-fit", nPart, nClean+nSkip)
	over := mk("oversize", nOver, nClean+nSkip+nPart)

	r.Require("da-order", int64(nClean*3))
	r.Require("size-bound", int64(nClean*2))
	r.Require("restart-continuity", int64(nClean/2))
	r.Require("completeness", int64(nClean))

	// 1. clean region: every failure is a violation
	pool(len(clean), func(i int) { rp.handle(clean[i], Judge(clean[i])) })
	// 2. trigger regions, the smallest known reproductions first
	for _, c := range directed() {
		rp.handle(c, Judge(c))
	}
	pool(len(skip), func(i int) { rp.handle(skip[i], Judge(skip[i])) })
	pool(len(part), func(i int) { rp.handle(part[i], Judge(part[i])) })
	pool(len(over), func(i int) { rp.handle(over[i], Judge(over[i])) })
}
