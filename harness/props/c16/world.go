package c16

import (
	"context"
	"encoding/hex"
	"errors"
	"fmt"
	"net"
	"runtime/debug"
	"strconv"
	"sync"
	"time"

	logging "github.com/ipfs/go-log/v2"

	coreda "github.com/evstack/ev-node/core/da"
	proxy "github.com/evstack/ev-node/da/jsonrpc"
)

// clientNamespace is the namespace the JSON-RPC client is configured with (NewClient takes it in hex).
var clientNamespace = []byte("c16-ns")

// callerNamespace is what the node-side caller passes: types.SubmitWithHelpers always passes
// "placeholder"; the harness passes the same bytes to RetrieveWithHelpers so that a namespace-keeping
// backing finds on the direct path what was stored on the direct path.
var callerNamespace = []byte("placeholder")

const watchdog = 20 * time.Second

var errWatchdog = errors.New("c16: watchdog")

// pair is one world: two identical backings, one called directly, one behind the real
// jsonrpc.NewServer / jsonrpc.NewClient on loopback.
type pair struct {
	direct  *backing
	remote  *backing
	srv     *proxy.Server
	cl      *proxy.Client
	proxied coreda.DA
	limit   uint64 // the limit the client filters with
	logger  logging.EventLogger
}

var startMu sync.Mutex

func freePort() (string, error) {
	l, err := net.Listen("tcp", "127.0.0.1:0")
	if err != nil {
		return "", err
	}
	p := l.Addr().(*net.TCPAddr).Port
	_ = l.Close()
	return strconv.Itoa(p), nil
}

// newPair starts the world. clientLimit 0 keeps the limit NewClient chose.
func newPair(cfg BackingCfg, clientLimit uint64, logger logging.EventLogger) (*pair, error) {
	p := &pair{direct: newBacking("direct", cfg), remote: newBacking("remote", cfg), logger: logger}
	startMu.Lock()
	var lastErr error
	var port string
	for try := 0; try < 30; try++ {
		var err error
		port, err = freePort()
		if err != nil {
			lastErr = err
			continue
		}
		srv := proxy.NewServer(logger, "127.0.0.1", port, p.remote)
		if err = srv.Start(context.Background()); err != nil {
			lastErr = err
			continue
		}
		p.srv = srv
		break
	}
	startMu.Unlock()
	if p.srv == nil {
		return nil, fmt.Errorf("could not start server: %v", lastErr)
	}
	cl, err := proxy.NewClient(context.Background(), logger, "http://127.0.0.1:"+port, "", hex.EncodeToString(clientNamespace))
	if err != nil {
		p.close()
		return nil, fmt.Errorf("NewClient: %v", err)
	}
	p.cl = cl
	if clientLimit != 0 {
		cl.DA.MaxBlobSize = clientLimit // exported field; the repository's own tests set it the same way
	}
	p.limit = cl.DA.MaxBlobSize
	p.proxied = &cl.DA
	return p, nil
}

func (p *pair) close() {
	if p.cl != nil {
		p.cl.Close()
	}
	if p.srv != nil {
		ctx, cancel := context.WithTimeout(context.Background(), 2*time.Second)
		_ = p.srv.Stop(ctx)
		cancel()
	}
}

// manualCtx is a context whose end the harness triggers itself (logical, no timer), with the error
// of its choice: context.Canceled or context.DeadlineExceeded.
type manualCtx struct {
	mu   sync.Mutex
	done chan struct{}
	err  error
}

func newManualCtx() *manualCtx { return &manualCtx{done: make(chan struct{})} }

func (c *manualCtx) Deadline() (time.Time, bool) { return time.Time{}, false }
func (c *manualCtx) Done() <-chan struct{}       { return c.done }
func (c *manualCtx) Value(any) any               { return nil }
func (c *manualCtx) Err() error {
	c.mu.Lock()
	defer c.mu.Unlock()
	return c.err
}
func (c *manualCtx) finish(err error) {
	c.mu.Lock()
	if c.err == nil {
		c.err = err
		close(c.done)
	}
	c.mu.Unlock()
}

func drain(ch chan struct{}) {
	for {
		select {
		case <-ch:
		default:
			return
		}
	}
}

// settle waits until no call is still running inside the backing.
func settle(b *backing) error {
	deadline := time.Now().Add(watchdog)
	for {
		b.mu.Lock()
		open := false
		for i := len(b.log) - 1; i >= 0 && i >= len(b.log)-4; i-- {
			if !b.log[i].Done {
				open = true
			}
		}
		b.mu.Unlock()
		if !open {
			return nil
		}
		if time.Now().After(deadline) {
			return errWatchdog
		}
		time.Sleep(200 * time.Microsecond)
	}
}

// runCall runs fn (one helper call) under the context regime ctxMode:
//
//	live      background context
//	precancel context already cancelled when the call starts
//	cancel    the call blocks inside the backing; once it is there the context is cancelled
//	deadline  same, but the context ends with context.DeadlineExceeded
//
// For cancel/deadline the backing must have been scripted to block.
func runCall(b *backing, ctxMode string, fn func(ctx context.Context)) error {
	drain(b.entered)
	drain(b.exited)
	var ctx context.Context = context.Background()
	var mc *manualCtx
	switch ctxMode {
	case "precancel":
		mc = newManualCtx()
		mc.finish(context.Canceled)
		ctx = mc
	case "cancel", "deadline":
		mc = newManualCtx()
		ctx = mc
	}
	done := make(chan struct{})
	var panicked error
	go func() {
		defer close(done)
		defer func() {
			if v := recover(); v != nil {
				panicked = &panicError{fmt.Sprintf("%v\n%s", v, debug.Stack())}
			}
		}()
		fn(ctx)
	}()
	if ctxMode == "cancel" || ctxMode == "deadline" {
		select {
		case <-b.entered:
		case <-done:
			// the call never blocked in the backing (e.g. refused on the client side): nothing to
			// cancel; the comparison of the two results decides what that means
			if panicked != nil {
				return panicked
			}
			return settle(b)
		case <-time.After(watchdog):
			mc.finish(context.Canceled)
			return errWatchdog
		}
		if ctxMode == "cancel" {
			mc.finish(context.Canceled)
		} else {
			mc.finish(context.DeadlineExceeded)
		}
	}
	select {
	case <-done:
	case <-time.After(watchdog):
		if mc != nil {
			mc.finish(context.Canceled)
		}
		return errWatchdog
	}
	if panicked != nil {
		return panicked
	}
	return settle(b)
}

// panicError: the call panicked (recovered in the goroutine that made it).
type panicError struct{ msg string }

func (e *panicError) Error() string { return "panic: " + e.msg }
