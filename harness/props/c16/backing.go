package c16

import (
	"context"
	"crypto/sha256"
	"encoding/binary"
	"errors"
	"fmt"
	"os"
	"strconv"
	"sync"
	"time"

	coreda "github.com/evstack/ev-node/core/da"
)

// ErrSpec names one error value a backing returns. It is data (JSON-able) so that a case
// can be written to a replay file; build() turns it into the Go error.
type ErrSpec struct {
	// Base: a sentinel of core/da by name, "context.Canceled", "context.DeadlineExceeded" or "generic".
	Base string `json:"base"`
	// Form:
	//   plain       the error value itself
	//   wrap        fmt.Errorf("c16 backing: %w", e)                     (identity kept, text = prefix + ": " + text)
	//   wrap2       fmt.Errorf("c16 outer: %w", fmt.Errorf("inner: %w", e))
	//   prewrap     fmt.Errorf("%w: requested 7, current 3", e)          (identity kept, sentinel text first)
	//   midwrap     fmt.Errorf("c16 outer: %w: tx 0xABC at height 7", e)  (identity kept, sentinel text in the middle)
	//   sametext    errors.New(e.Error())                                (identity lost, text equal; what DummyDA does for "from the future")
	//   look-prefix errors.New(e.Error() + " exceeded")                  (unrelated error, text merely starts with the sentinel's)
	//   look-embed  errors.New("upstream said '" + e.Error() + "' and gave up")
	Form string `json:"form"`
}

func (s ErrSpec) String() string { return s.Base + "/" + s.Form }

var sentinels = []struct {
	Name string
	Err  error
}{
	{"ErrBlobNotFound", coreda.ErrBlobNotFound},
	{"ErrBlobSizeOverLimit", coreda.ErrBlobSizeOverLimit},
	{"ErrTxTimedOut", coreda.ErrTxTimedOut},
	{"ErrTxAlreadyInMempool", coreda.ErrTxAlreadyInMempool},
	{"ErrTxIncorrectAccountSequence", coreda.ErrTxIncorrectAccountSequence},
	{"ErrContextDeadline", coreda.ErrContextDeadline},
	{"ErrHeightFromFuture", coreda.ErrHeightFromFuture},
	{"ErrContextCanceled", coreda.ErrContextCanceled},
}

var errGeneric = errors.New("c16 backing: unrelated failure")

func baseErr(name string) error {
	switch name {
	case "context.Canceled":
		return context.Canceled
	case "context.DeadlineExceeded":
		return context.DeadlineExceeded
	case "generic":
		return errGeneric
	}
	for _, s := range sentinels {
		if s.Name == name {
			return s.Err
		}
	}
	panic("c16: unknown error base " + name)
}

func (s ErrSpec) build() error {
	e := baseErr(s.Base)
	switch s.Form {
	case "plain":
		return e
	case "wrap":
		return fmt.Errorf("c16 backing: %w", e)
	case "wrap2":
		return fmt.Errorf("c16 outer: %w", fmt.Errorf("inner: %w", e))
	case "prewrap":
		return fmt.Errorf("%w: requested 7, current 3", e)
	case "midwrap":
		return fmt.Errorf("c16 outer: %w: tx 0xABC at height 7", e)
	case "sametext":
		return errors.New(e.Error())
	case "look-prefix":
		return errors.New(e.Error() + " exceeded")
	case "look-embed":
		return errors.New("upstream said '" + e.Error() + "' and gave up")
	}
	panic("c16: unknown error form " + s.Form)
}

// Outcome scripts the answer of a backing to one call.
type Outcome struct {
	// Kind: real (behave like an honest DA) | prefix (store only the first Prefix blobs, no error) |
	// err (return Err) | block (block until the context is done, return ctx.Err()) |
	// empty (GetIDs: non-nil result without ids, no error) | nil (GetIDs: nil result, no error) |
	// discard (SubmitWithOptions: record what arrived, hand out one id per blob, store nothing and leave the
	// height alone; used by the harness to ask the client what it would send without disturbing the world)
	// slow (SubmitWithOptions: behave like an honest DA, but answer only after DelayMs of real time)
	Kind    string   `json:"kind"`
	Prefix  int      `json:"prefix,omitempty"`
	Err     *ErrSpec `json:"err,omitempty"`
	DelayMs int      `json:"delay_ms,omitempty"`
}

func (o Outcome) String() string {
	switch o.Kind {
	case "err":
		return "err(" + o.Err.String() + ")"
	case "prefix":
		return fmt.Sprintf("prefix%d", o.Prefix)
	case "slow":
		return fmt.Sprintf("slow%dms", o.DelayMs)
	case "":
		return "real"
	}
	return o.Kind
}

type stored struct {
	ns   string
	id   []byte
	blob []byte
}

// callRec is what a backing saw and answered for one call.
type callRec struct {
	Kind     string // submit | getids | get | getproofs | validate | commit | gasprice | gasmultiplier
	Tag      string // submit: the options bytes
	NS       string
	GasPrice float64
	Height   uint64 // getids: requested; submit: height stored at; get: height of the first id
	Received [][]byte
	GetIDs   [][]byte // get, getproofs, validate: the ids asked for
	Proofs   [][]byte // validate: the proofs given
	Stored   int
	IDs      [][]byte // submit: ids handed out
	Err      error
	Outcome  string
	Done     bool // false while a blocking call has not returned yet
}

// BackingCfg are the per-case properties of the (two identical) backings.
type BackingCfg struct {
	// Limit is the backing's own size limit with the policy of core/da.DummyDA: an individual blob
	// above it => ErrBlobSizeOverLimit and nothing stored; otherwise the longest prefix whose total
	// size is within the limit is stored. 0 = no limit (what da/cmd/local-da does).
	Limit uint64 `json:"limit"`
	// FutureForm: how "height from the future" is said: sentinel (wraps coreda.ErrHeightFromFuture) |
	// sametext (a distinct error with the same text, as core/da.DummyDA.GetIDs does).
	FutureForm string `json:"future_form"`
	// NotFoundForm: how "nothing at this height" is said: sentinel (coreda.ErrBlobNotFound) |
	// wrapped | empty (result without ids and no error, as core/da.DummyDA.GetIDs does).
	NotFoundForm string `json:"notfound_form"`
}

// backing is the deterministic, scriptable DA layer. Two instances with the same configuration that
// receive the same calls return the same answers (ids included). Blobs are kept per namespace, the
// way a real DA layer does; ids do not depend on the namespace.
type backing struct {
	name string
	cfg  BackingCfg

	mu       sync.Mutex
	cur      uint64
	byHeight map[uint64][]stored
	byID     map[string]stored
	seq      uint64
	sub      map[string]Outcome // submit outcome by options tag
	getIDs   map[uint64]Outcome // GetIDs outcome by height
	getFail  *getFail
	getCount map[uint64]int
	method   map[string]Outcome // scripted failure of GetProofs / Validate / Commit / GasPrice / GasMultiplier
	gasPrice float64
	gasMult  float64
	log      []callRec
	entered  chan struct{}
	exited   chan struct{}
}

type getFail struct {
	Height uint64
	Chunk  int
	Out    Outcome
}

var _ coreda.DA = (*backing)(nil)

func newBacking(name string, cfg BackingCfg) *backing {
	return &backing{name: name, cfg: cfg, byHeight: map[uint64][]stored{}, byID: map[string]stored{},
		sub: map[string]Outcome{}, getIDs: map[uint64]Outcome{}, getCount: map[uint64]int{},
		method: map[string]Outcome{}, gasPrice: 0.002, gasMult: 1.5,
		entered: make(chan struct{}, 64), exited: make(chan struct{}, 64)}
}

func (b *backing) scriptSubmit(tag string, o Outcome) {
	b.mu.Lock()
	b.sub[tag] = o
	b.mu.Unlock()
}

func (b *backing) scriptGetIDs(h uint64, o *Outcome) {
	b.mu.Lock()
	if o == nil {
		delete(b.getIDs, h)
	} else {
		b.getIDs[h] = *o
	}
	b.mu.Unlock()
}

// scriptMethod scripts the answer of one of the remaining interface methods (nil = honest again).
func (b *backing) scriptMethod(name string, o *Outcome) {
	b.mu.Lock()
	if o == nil {
		delete(b.method, name)
	} else {
		b.method[name] = *o
	}
	b.mu.Unlock()
}

func (b *backing) setGas(price, mult float64) {
	b.mu.Lock()
	b.gasPrice, b.gasMult = price, mult
	b.mu.Unlock()
}

func (b *backing) scriptGetFail(g *getFail) {
	b.mu.Lock()
	b.getFail = g
	b.mu.Unlock()
}

// advance moves the current height without storing anything (creates heights without blobs).
func (b *backing) advance(n uint64) {
	b.mu.Lock()
	b.cur += n
	b.mu.Unlock()
}

func (b *backing) height() uint64 {
	b.mu.Lock()
	defer b.mu.Unlock()
	return b.cur
}

func (b *backing) logLen() int {
	b.mu.Lock()
	defer b.mu.Unlock()
	return len(b.log)
}

func (b *backing) logFrom(i int) []callRec {
	b.mu.Lock()
	defer b.mu.Unlock()
	return append([]callRec(nil), b.log[i:]...)
}

// image returns height -> (id, blob) in placement order, namespace dropped.
func (b *backing) image() map[uint64][]stored {
	b.mu.Lock()
	defer b.mu.Unlock()
	out := map[uint64][]stored{}
	for h, l := range b.byHeight {
		out[h] = append([]stored(nil), l...)
	}
	return out
}

func (b *backing) lookup(id []byte) (stored, bool) {
	b.mu.Lock()
	defer b.mu.Unlock()
	st, ok := b.byID[string(id)]
	return st, ok
}

func (b *backing) namespaces() map[string]int {
	b.mu.Lock()
	defer b.mu.Unlock()
	out := map[string]int{}
	for _, c := range b.log {
		out[c.NS]++
	}
	return out
}

func (b *backing) blockUntilDone(ctx context.Context, rec callRec) error {
	rec.Outcome = "block"
	b.log = append(b.log, rec)
	idx := len(b.log) - 1
	b.mu.Unlock()
	b.entered <- struct{}{}
	<-ctx.Done()
	err := ctx.Err()
	b.mu.Lock()
	b.log[idx].Err = err
	b.log[idx].Done = true
	b.mu.Unlock()
	b.exited <- struct{}{}
	return err
}

func (b *backing) SubmitWithOptions(ctx context.Context, blobs []coreda.Blob, gasPrice float64, ns []byte, options []byte) ([]coreda.ID, error) {
	b.mu.Lock()
	tag := string(options)
	o, ok := b.sub[tag]
	if !ok || o.Kind == "" {
		o = Outcome{Kind: "real"}
	}
	rec := callRec{Kind: "submit", Tag: tag, NS: string(ns), GasPrice: gasPrice, Received: blobs, Outcome: o.String(), Done: true}
	if o.Kind == "block" {
		rec.Done = false
		return nil, b.blockUntilDone(ctx, rec) // unlocks
	}
	idx := -1
	var waitErr error
	if o.Kind == "slow" {
		// an honest DA layer that answers late (say, once the blob transaction is included): the call is on record as
		// running while it waits; a caller that gives up in the meantime gets its own context error and nothing is stored
		rec.Done = false
		b.log = append(b.log, rec)
		idx = len(b.log) - 1
		b.mu.Unlock()
		t := time.NewTimer(b.slowDelay(o))
		select {
		case <-t.C:
		case <-ctx.Done():
			t.Stop()
			waitErr = ctx.Err()
		}
		b.mu.Lock()
		rec.Done = true
	}
	defer b.mu.Unlock()
	record := func() {
		if idx >= 0 {
			b.log[idx] = rec
		} else {
			b.log = append(b.log, rec)
		}
	}
	fail := func(err error) ([]coreda.ID, error) {
		rec.Err = err
		record()
		return nil, err
	}
	if waitErr != nil {
		return fail(waitErr)
	}
	if err := ctx.Err(); err != nil {
		return fail(err)
	}
	if o.Kind == "err" {
		return fail(o.Err.build())
	}
	if o.Kind == "discard" {
		ids := make([]coreda.ID, len(blobs))
		for i := range blobs {
			ids[i] = binary.LittleEndian.AppendUint64(binary.LittleEndian.AppendUint64(nil, 0), uint64(i))
		}
		rec.IDs = ids
		record()
		return ids, nil
	}
	n := len(blobs)
	if b.cfg.Limit > 0 {
		var sum uint64
		for i, bl := range blobs {
			l := uint64(len(bl))
			if l > b.cfg.Limit {
				return fail(coreda.ErrBlobSizeOverLimit)
			}
			if sum+l > b.cfg.Limit {
				n = i
				break
			}
			sum += l
		}
	}
	if o.Kind == "prefix" && o.Prefix < n {
		n = o.Prefix
	}
	ids := make([]coreda.ID, 0, n)
	if n > 0 {
		b.cur++
		h := b.cur
		for _, bl := range blobs[:n] {
			b.seq++
			sum := sha256.Sum256(bl)
			id := make([]byte, 8+8+16)
			binary.LittleEndian.PutUint64(id, h)
			binary.LittleEndian.PutUint64(id[8:], b.seq)
			copy(id[16:], sum[:16])
			st := stored{ns: string(ns), id: id, blob: append([]byte{}, bl...)}
			b.byHeight[h] = append(b.byHeight[h], st)
			b.byID[string(id)] = st
			ids = append(ids, id)
		}
		rec.Height = h
	}
	rec.Stored = n
	rec.IDs = ids
	record()
	return ids, nil
}

// slowDelay is how long a "slow" answer takes (development aid: C16_SLOW_MS overrides the scripted time).
func (b *backing) slowDelay(o Outcome) time.Duration {
	if v, err := strconv.Atoi(os.Getenv("C16_SLOW_MS")); err == nil && v > 0 {
		return time.Duration(v) * time.Millisecond
	}
	return time.Duration(o.DelayMs) * time.Millisecond
}

func (b *backing) Submit(ctx context.Context, blobs []coreda.Blob, gasPrice float64, ns []byte) ([]coreda.ID, error) {
	return b.SubmitWithOptions(ctx, blobs, gasPrice, ns, nil)
}

func (b *backing) GetIDs(ctx context.Context, height uint64, ns []byte) (*coreda.GetIDsResult, error) {
	b.mu.Lock()
	o, ok := b.getIDs[height]
	if !ok || o.Kind == "" {
		o = Outcome{Kind: "real"}
	}
	b.getCount[height] = 0
	rec := callRec{Kind: "getids", NS: string(ns), Height: height, Outcome: o.String(), Done: true}
	if o.Kind == "block" {
		rec.Done = false
		return nil, b.blockUntilDone(ctx, rec) // unlocks
	}
	defer b.mu.Unlock()
	fail := func(err error) (*coreda.GetIDsResult, error) {
		rec.Err = err
		b.log = append(b.log, rec)
		return nil, err
	}
	if err := ctx.Err(); err != nil {
		return fail(err)
	}
	ts := backingTime(height)
	switch o.Kind {
	case "err":
		return fail(o.Err.build())
	case "empty":
		b.log = append(b.log, rec)
		return &coreda.GetIDsResult{IDs: []coreda.ID{}, Timestamp: ts}, nil
	case "nil":
		b.log = append(b.log, rec)
		return nil, nil
	}
	if height > b.cur {
		if b.cfg.FutureForm == "sametext" {
			return fail(fmt.Errorf("%w: requested %d, current %d", errFutureSameText, height, b.cur))
		}
		return fail(fmt.Errorf("%w: requested %d, current %d", coreda.ErrHeightFromFuture, height, b.cur))
	}
	var ids []coreda.ID
	for _, st := range b.byHeight[height] {
		if st.ns == string(ns) {
			ids = append(ids, st.id)
		}
	}
	if len(ids) == 0 {
		switch b.cfg.NotFoundForm {
		case "empty":
			b.log = append(b.log, rec)
			return &coreda.GetIDsResult{IDs: []coreda.ID{}, Timestamp: ts}, nil
		case "wrapped":
			return fail(fmt.Errorf("c16 backing: height %d: %w", height, coreda.ErrBlobNotFound))
		}
		return fail(coreda.ErrBlobNotFound)
	}
	rec.IDs = ids
	b.log = append(b.log, rec)
	return &coreda.GetIDsResult{IDs: ids, Timestamp: ts}, nil
}

// backingTime is the time a backing reports for a height: sub-second precision, and a zone that is not
// always UTC (the instant is what matters; real DA layers report whatever their node's clock library gives).
func backingTime(height uint64) time.Time {
	t := time.Unix(1_700_000_000+int64(height%1_000_000), int64((height*7919+123_456_789)%1_000_000_000))
	switch height % 3 {
	case 0:
		return t.UTC()
	case 1:
		return t.In(time.FixedZone("c16+0530", 5*3600+1800))
	}
	return t.In(time.FixedZone("c16-0800", -8*3600))
}

var errFutureSameText = errors.New(coreda.ErrHeightFromFuture.Error())

func (b *backing) Get(ctx context.Context, ids []coreda.ID, ns []byte) ([]coreda.Blob, error) {
	b.mu.Lock()
	var height uint64
	if len(ids) > 0 && len(ids[0]) >= 8 {
		height = binary.LittleEndian.Uint64(ids[0])
	}
	idx := b.getCount[height]
	b.getCount[height]++
	rec := callRec{Kind: "get", NS: string(ns), Height: height, GetIDs: ids, Outcome: "real", Done: true}
	if g := b.getFail; g != nil && g.Height == height && g.Chunk == idx {
		rec.Outcome = g.Out.String()
		if g.Out.Kind == "block" {
			rec.Done = false
			return nil, b.blockUntilDone(ctx, rec) // unlocks
		}
		if g.Out.Kind == "err" {
			defer b.mu.Unlock()
			rec.Err = g.Out.Err.build()
			b.log = append(b.log, rec)
			return nil, rec.Err
		}
	}
	defer b.mu.Unlock()
	if err := ctx.Err(); err != nil {
		rec.Err = err
		b.log = append(b.log, rec)
		return nil, err
	}
	out := make([]coreda.Blob, 0, len(ids))
	for _, id := range ids {
		st, ok := b.byID[string(id)]
		if !ok || st.ns != string(ns) {
			rec.Err = coreda.ErrBlobNotFound
			b.log = append(b.log, rec)
			return nil, coreda.ErrBlobNotFound
		}
		out = append(out, st.blob)
	}
	b.log = append(b.log, rec)
	return out, nil
}

// methodEnter records a call of one of the remaining interface methods and applies its script.
// It returns with b.mu held unless failed is true.
func (b *backing) methodEnter(ctx context.Context, rec *callRec) (err error) {
	b.mu.Lock()
	if o, ok := b.method[rec.Kind]; ok && o.Kind == "err" {
		rec.Outcome = o.String()
		err = o.Err.build()
	} else if e := ctx.Err(); e != nil {
		err = e
	}
	if err != nil {
		rec.Err = err
		b.log = append(b.log, *rec)
		b.mu.Unlock()
	}
	return err
}

func proofOf(st stored) []byte {
	// independent of the namespace: the client replaces the caller's namespace by its own, so the two
	// backings hold the same blobs under different namespaces
	sum := sha256.Sum256(append([]byte("c16 proof|"), st.blob...))
	return append(append([]byte("proof:"), st.id...), sum[:6]...)
}

var errNoProof = errors.New("c16 backing: no such blob in this namespace")

func (b *backing) GetProofs(ctx context.Context, ids []coreda.ID, ns []byte) ([]coreda.Proof, error) {
	rec := callRec{Kind: "getproofs", NS: string(ns), GetIDs: ids, Outcome: "real", Done: true}
	if err := b.methodEnter(ctx, &rec); err != nil {
		return nil, err
	}
	defer b.mu.Unlock()
	out := make([]coreda.Proof, len(ids))
	for i, id := range ids {
		st, ok := b.byID[string(id)]
		if !ok || st.ns != string(ns) {
			rec.Err = errNoProof
			b.log = append(b.log, rec)
			return nil, errNoProof
		}
		out[i] = proofOf(st)
	}
	b.log = append(b.log, rec)
	return out, nil
}

func (b *backing) Commit(ctx context.Context, blobs []coreda.Blob, ns []byte) ([]coreda.Commitment, error) {
	rec := callRec{Kind: "commit", NS: string(ns), Received: blobs, Outcome: "real", Done: true}
	if err := b.methodEnter(ctx, &rec); err != nil {
		return nil, err
	}
	defer b.mu.Unlock()
	out := make([]coreda.Commitment, len(blobs))
	for i, bl := range blobs {
		h := sha256.Sum256(bl)
		out[i] = h[:]
	}
	b.log = append(b.log, rec)
	return out, nil
}

var errValidateArgs = errors.New("c16 backing: number of ids and proofs differ")

func (b *backing) Validate(ctx context.Context, ids []coreda.ID, proofs []coreda.Proof, ns []byte) ([]bool, error) {
	rec := callRec{Kind: "validate", NS: string(ns), GetIDs: ids, Proofs: proofs, Outcome: "real", Done: true}
	if err := b.methodEnter(ctx, &rec); err != nil {
		return nil, err
	}
	defer b.mu.Unlock()
	if len(ids) != len(proofs) {
		rec.Err = errValidateArgs
		b.log = append(b.log, rec)
		return nil, errValidateArgs
	}
	out := make([]bool, len(ids))
	for i, id := range ids {
		st, ok := b.byID[string(id)]
		out[i] = ok && st.ns == string(ns) && string(proofs[i]) == string(proofOf(st))
	}
	b.log = append(b.log, rec)
	return out, nil
}

func (b *backing) GasPrice(ctx context.Context) (float64, error) {
	rec := callRec{Kind: "gasprice", Outcome: "real", Done: true}
	if err := b.methodEnter(ctx, &rec); err != nil {
		return 0, err
	}
	defer b.mu.Unlock()
	b.log = append(b.log, rec)
	return b.gasPrice, nil
}

func (b *backing) GasMultiplier(ctx context.Context) (float64, error) {
	rec := callRec{Kind: "gasmultiplier", Outcome: "real", Done: true}
	if err := b.methodEnter(ctx, &rec); err != nil {
		return 0, err
	}
	defer b.mu.Unlock()
	b.log = append(b.log, rec)
	return b.gasMult, nil
}
