// Package c16 decides C16: for the node, a DA layer reached through the JSON-RPC client and server is
// indistinguishable from the same DA layer called directly (see /verif/DESIGN.md §7).
//
// Observation point: the coreda.ResultSubmit / coreda.ResultRetrieve that the node's own helpers
// (types.SubmitWithHelpers, types.RetrieveWithHelpers) produce. Every case is a call sequence that is made
// twice, call by call: on a scriptable DA layer ("backing") called directly, and on a second, identical
// backing that sits behind the real jsonrpc.NewServer and is reached through the real jsonrpc.NewClient
// on 127.0.0.1. The oracle compares the two results of every call, compares what the two backings hold
// at the end, and checks the size-limit clause against what the backing behind the proxy really
// received and stored.
//
// # Reading of the statement (what is demanded, and what is not)
//
//   - "the same ids and blobs come back", "classified identically": Code, SubmittedCount, IDs, Height and
//     Data of the two results must be equal. Message texts need not be equal, but block.Manager decides
//     "height from the future" by looking for the sentinel's text in the message (block/retriever.go:92),
//     so the truth value of that substring test must be equal too. The time the DA layer reports for a
//     height (ResultRetrieve.Timestamp, the block time of a based sequencer) must come back as the same
//     instant (time.Time.Equal: sub-second precision kept, zone and representation free); the backings
//     report times with nanoseconds in three different zones.
//   - Errors: the quantifier is "every error the DA interface defines" (the eight sentinels of
//     core/da/errors.go) plus cancellation (the caller's context ending with context.Canceled or
//     context.DeadlineExceeded, also while the call is blocked inside the DA layer). Each sentinel is
//     produced plain and wrapped in every position: fmt.Errorf("...: %w"), doubly, sentinel first
//     ("%w: detail") and in the middle ("...: %w: detail"); errors.Is sees all of them in process.
//     NOT promised, and therefore recorded (counters unpromised_error_*) instead of judged, is the status
//     code of errors that are none of these: unrelated errors whose text equals, starts with or embeds a
//     sentinel's text, and the standard library's context errors returned by the DA layer while the
//     caller's context is alive. Everything else of such a call (count, ids, what was stored) is still
//     compared. A plain unrelated error ("generic") must stay the generic error on both paths.
//   - A DA layer that returns ids together with an error is outside the DA interface's contract (and
//     JSON-RPC carries either a result or an error); the backing never does that.
//   - The size filter lives in the client; the direct path has none. "The same DA layer called directly"
//     is therefore read as: the direct DA layer is given exactly the call the client made, i.e. the blobs
//     the DA layer behind the proxy received. Separately, on the proxied side alone, with L the client's
//     limit and B the caller's list:
//     (a) what the backing received is a prefix B[:m] of B, m >= 1, and its raw size is <= L;
//     (b) it is the longest prefix that fits, where "fits" is the client's own notion, anchored as follows.
//     Once per limit the harness asks the real client (calls that the backing records and discards)
//     whether a single blob of L bytes is passed on and one of L+1 bytes is not. If the latter is passed
//     on, the limit the harness set through the exported field API.MaxBlobSize (as the repository's tests
//     do; NewClient sets the package default) is not what the client filters with: the cases with that
//     limit are not run and the run is inconclusive. If a blob of exactly L bytes is passed on, the client
//     counts raw bytes and m must be the largest number of leading blobs whose sizes sum to <= L
//     (computed here, independently). Otherwise the client counts something stricter (framing, encoded
//     size): then m is accepted if the client, given B[:m+1] alone, does not pass all m+1 on.
//     (c) if nothing was sent although B is not empty, a blob the packing had to look at - one of the leading
//     blobs that fit together or the first one behind them - must be too big by itself (raw size > L, or
//     refused by the client when given alone) and the result must be "blob too big", count 0, no ids. For a
//     list whose first non-fitting blob is oversize by itself both policies are accepted: refuse the whole
//     list (what the client does today) or submit the prefix in front of it; an oversize blob further back
//     justifies nothing;
//     (d) SubmittedCount never exceeds, and on success equals, the number of blobs the backing stored in
//     this call; the ids are the ids the backing handed out; what it stored are the first
//     SubmittedCount blobs of B.
//     The backing itself has the same limit with the policy of core/da.DummyDA, none (da/cmd/local-da) or
//     half of it, so that refusals and cuts made by the DA layer behind the server cross the wire too.
//   - The six interface methods without a node-side helper (Submit, GetProofs, Validate, Commit, GasPrice,
//     GasMultiplier; the sequencers call them) are called on both paths with the same arguments: the
//     values that come back, whether an error comes back, and for Submit what the DA layer stored and the
//     gas price it was given must be equal. Which error it is is only recorded for these methods.
//   - Cancellation that does not reach the DA layer behind the server (the client returns "cancelled", the
//     backing call stays blocked) cannot be decided logically - the server learns about it from a closed
//     connection, asynchronously - and stays inconclusive after the 20 s watchdog.
//   - A call in which the client must refuse a blob (above its limit) is never combined with a scripted DA
//     failure or a dead context: which of two causes wins is not fixed by the statement.
//   - An empty list is only ever scripted to succeed: the client answers it without a round trip, which
//     the statement does not forbid.
//   - Namespaces: the client replaces the caller's namespace by the one it was configured with. The
//     backing keeps blobs per namespace like a real DA layer; the caller's namespace is the same
//     ("placeholder", what SubmitWithHelpers passes) for submission and retrieval on both paths, so any
//     implementation that treats the namespace consistently across methods is accepted; which namespace
//     arrives is not checked, only what comes back.
package c16

import (
	"bytes"
	"context"
	"encoding/json"
	"errors"
	"fmt"
	"math"
	"math/rand"
	"os"
	"sort"
	"strings"
	"sync"
	"time"

	logging "github.com/ipfs/go-log/v2"

	coreda "github.com/evstack/ev-node/core/da"
	"github.com/evstack/ev-node/types"

	"verifharness/vk"
	"verifharness/world"
)

// Level is the verification level claimed for this property.
const Level = "fault_enumeration"

const (
	findingIdentity = "C16-error-identity"
	findingCanceled = "C16-canceled-overmatch"
)

// identityCodes: the five classes that need the identity of the sentinel (errors.Is in SubmitWithHelpers).
var identitySentinels = []error{coreda.ErrTxTimedOut, coreda.ErrTxAlreadyInMempool, coreda.ErrBlobSizeOverLimit,
	coreda.ErrTxIncorrectAccountSequence, coreda.ErrContextDeadline}

var identityCodes = map[coreda.StatusCode]bool{coreda.StatusNotIncludedInBlock: true, coreda.StatusAlreadyInMempool: true,
	coreda.StatusTooBig: true, coreda.StatusIncorrectAccountSequence: true, coreda.StatusContextDeadline: true}

// errTrigger says in which trigger region an error returned by the backing to SubmitWithOptions lies.
//
//	T1 (C16-error-identity):     the error is or wraps one of the five sentinels SubmitWithHelpers tells apart by identity.
//	T2 (C16-canceled-overmatch): the text contains "context canceled" but the error is not context.Canceled
//	                             (this includes the interface's own sentinel ErrContextCanceled).
func errTrigger(e error) string {
	if e == nil {
		return ""
	}
	for _, s := range identitySentinels {
		if errors.Is(e, s) {
			return "T1"
		}
	}
	if strings.Contains(e.Error(), context.Canceled.Error()) && !errors.Is(e, context.Canceled) {
		return "T2"
	}
	return ""
}

func specTrigger(sp ErrSpec) string { return errTrigger(sp.build()) }

// Obs is the compared part of a helper result.
type Obs struct {
	Code    uint64   `json:"code"`
	Count   uint64   `json:"submitted_count"`
	Height  uint64   `json:"height"`
	IDs     []string `json:"ids"`
	Data    []string `json:"data,omitempty"`
	Message string   `json:"message"`
	Future  bool     `json:"manager_reads_from_future"`
	Time    string   `json:"timestamp,omitempty"`
	ids     [][]byte
	data    [][]byte
	ts      time.Time
}

func short(list [][]byte) []string {
	out := make([]string, 0, len(list))
	for i, b := range list {
		if i == 8 {
			out = append(out, fmt.Sprintf("… (%d in all)", len(list)))
			break
		}
		out = append(out, vk.HexShort(b))
	}
	return out
}

// managerReadsFuture is block.Manager's test (retriever.go:92 on the error built from the message at
// retriever.go:233/236).
func managerReadsFuture(code coreda.StatusCode, msg string) bool {
	switch code {
	case coreda.StatusHeightFromFuture:
		return true
	case coreda.StatusError:
		return strings.Contains(msg, coreda.ErrHeightFromFuture.Error())
	}
	return false
}

func obsSubmit(r coreda.ResultSubmit) Obs {
	return Obs{Code: uint64(r.Code), Count: r.SubmittedCount, Height: r.Height, IDs: short(r.IDs), Message: r.Message, ids: r.IDs}
}

func obsRetrieve(r coreda.ResultRetrieve) Obs {
	return Obs{Code: uint64(r.Code), Count: r.SubmittedCount, Height: r.Height, IDs: short(r.IDs), Data: short(r.Data), Message: r.Message,
		Future: managerReadsFuture(r.Code, r.Message), ids: r.IDs, data: r.Data, ts: r.Timestamp, Time: r.Timestamp.Format(time.RFC3339Nano)}
}

func sameList(a, b [][]byte) bool {
	if len(a) != len(b) {
		return false
	}
	for i := range a {
		if !bytes.Equal(a[i], b[i]) {
			return false
		}
	}
	return true
}

// diff lists the compared fields in which two observations differ.
func diff(d, p Obs) []string {
	var out []string
	if d.Code != p.Code {
		out = append(out, "Code")
	}
	if d.Count != p.Count {
		out = append(out, "SubmittedCount")
	}
	if d.Height != p.Height {
		out = append(out, "Height")
	}
	if !sameList(d.ids, p.ids) {
		out = append(out, "IDs")
	}
	if !sameList(d.data, p.data) {
		out = append(out, "Data")
	}
	if d.Future != p.Future {
		out = append(out, "from-the-future-substring")
	}
	// the time the DA layer reports for a height becomes the block time of a based sequencer: the same
	// instant must come back (zone and representation are free)
	if coreda.StatusCode(d.Code) == coreda.StatusSuccess && coreda.StatusCode(p.Code) == coreda.StatusSuccess && !d.ts.Equal(p.ts) {
		out = append(out, "Timestamp")
	}
	return out
}

// refPrefix is the reference for the size clause: k = the largest number of leading blobs whose total
// size is within the limit; tooBig = the first blob that does not fit is by itself above the limit.
func refPrefix(sizes []int, limit uint64) (k int, tooBig bool) {
	var sum uint64
	for i, s := range sizes {
		if sum+uint64(s) > limit {
			return i, uint64(s) > limit
		}
		sum += uint64(s)
	}
	return len(sizes), false
}

func mkBlobs(seed int64, opIdx int, sizes []int) [][]byte {
	rng := rand.New(rand.NewSource(seed + int64(opIdx)*7919))
	out := make([][]byte, len(sizes))
	for i, s := range sizes {
		b := make([]byte, s)
		rng.Read(b)
		out[i] = b
	}
	return out
}

type tableRow struct {
	Call     string `json:"call"`
	Error    string `json:"error"`
	Direct   uint64 `json:"direct_code"`
	Proxied  uint64 `json:"proxied_code"`
	Judged   bool   `json:"judged"`
	Region   string `json:"region"`
	sortKey  string
	Agreeing bool `json:"agree"`
}

type runner struct {
	r      *vk.Run
	logger logging.EventLogger

	mu       sync.Mutex
	table    map[string]tableRow
	reported map[string]bool
	tsEqual  int64
	tsDiff   int64
	cal      map[uint64]fitCal // by Case.ClientLimit (0 = the limit NewClient chooses)
}

// caseRun is the state of one case being executed.
type caseRun struct {
	x       *runner
	c       Case
	p       *pair
	cal     fitCal
	lastH   uint64 // height of the most recent successful store (direct path)
	gapH    uint64
	aborted bool
	nontriv bool
	key     strings.Builder
}

func (x *runner) witness(cr *caseRun, opIdx int, d, p *Obs, extra map[string]any) map[string]any {
	w := map[string]any{"case": cr.c, "op_index": opIdx, "client_limit_in_force": cr.p.limit,
		"direct_given": "the blobs the DA layer behind the proxy received in this call", "client_fit_predicate": cr.cal.String()}
	if opIdx >= 0 && opIdx < len(cr.c.Ops) {
		w["op"] = cr.c.Ops[opIdx]
	}
	if d != nil {
		w["direct"] = *d
	}
	if p != nil {
		w["proxied"] = *p
	}
	for k, v := range extra {
		w[k] = v
	}
	return w
}

func codeName(c uint64) string {
	names := []string{"Unknown", "Success", "NotFound", "NotIncludedInBlock", "AlreadyInMempool", "TooBig", "ContextDeadline",
		"Error", "IncorrectAccountSequence", "ContextCanceled", "HeightFromFuture"}
	if int(c) < len(names) {
		return fmt.Sprintf("%d(%s)", c, names[c])
	}
	return fmt.Sprint(c)
}

// judge compares the two observations of one call and files the verdict.
//
//	backErr  the error a backing returned to the call (for the report; nil if none)
//	wireErr  the error the backing BEHIND THE PROXY returned, i.e. the one that had to cross the wire; the
//	         trigger regions of the known findings are defined on it alone (nil if that backing was not
//	         called or did not fail), so that e.g. a refusal made by the client itself is always judged
//	         in the clean region
func (x *runner) judge(cr *caseRun, opIdx int, clause string, d, p Obs, backErr, wireErr error, storedSame bool) {
	op := cr.c.Ops[opIdx]
	r := x.r
	r.Hit(clause)
	if backErr != nil {
		r.Hit("error-class-agree")
	}
	if op.ctx() != "live" {
		r.Hit("cancel-agree")
	}
	if d.Future || p.Future {
		r.Hit("future-substring-agree")
	}
	region := "clean"
	if op.Kind == "submit" {
		if t := errTrigger(wireErr); t != "" {
			region = t
		}
	}
	df := diff(d, p)
	if u := unpromised(op); u != "" || op.NoJudgeCode {
		// not one of the errors the DA interface defines: how such an error is classified on either path is
		// not promised; the classification is recorded, everything else is still compared
		region = "not-judged(" + u + ")"
		if op.NoJudgeCode {
			u = "text-equals-a-sentinel"
			region = "not-judged(text equals a sentinel's)"
		}
		var keep []string
		for _, f := range df {
			if f != "Code" && f != "from-the-future-substring" {
				keep = append(keep, f)
			}
		}
		if len(keep) != len(df) {
			r.Count("unpromised_error_classified_differently/"+u, 1)
		} else {
			r.Count("unpromised_error_classified_alike", 1)
		}
		df = keep
	}
	if op.Probe && strings.HasPrefix(cr.c.Part, "E-") {
		call := op.Kind
		if op.Kind == "retrieve" {
			call = "GetIDs"
			if op.GetFail != nil {
				call = fmt.Sprintf("Get(chunk %d)", op.GetFail.Chunk)
			}
		} else {
			call = "SubmitWithOptions"
		}
		what := cr.c.Name
		row := tableRow{Call: call, Error: what, Direct: d.Code, Proxied: p.Code, Judged: !strings.HasPrefix(region, "not-judged"), Region: region,
			Agreeing: d.Code == p.Code, sortKey: cr.c.Part + "|" + fmt.Sprintf("%06d", cr.c.ID)}
		x.mu.Lock()
		x.table[row.sortKey] = row
		x.mu.Unlock()
	}
	if region != "clean" {
		r.Count("trigger_region_calls/"+region, 1)
	}
	if len(df) == 0 && storedSame {
		if region == "T1" || region == "T2" {
			r.Count("trigger_region_calls_that_agree/"+region, 1)
		}
		return
	}
	detail := fmt.Sprintf("case %d (%s %s) op %d %s: direct and proxied results differ in %v: direct code=%s count=%d height=%d ids=%d | proxied code=%s count=%d height=%d ids=%d; backing error=%q; proxied message=%q",
		cr.c.ID, cr.c.Part, cr.c.Name, opIdx, opString(op), df, codeName(d.Code), d.Count, d.Height, len(d.ids), codeName(p.Code), p.Count, p.Height, len(p.ids), errText(backErr), p.Message)
	if !storedSame {
		detail += " [the two backings stored different things in this call]"
	}
	w := x.witness(cr, opIdx, &d, &p, map[string]any{"backing_error": errText(backErr), "differs_in": df})
	onlyCode := len(df) == 1 && df[0] == "Code" && storedSame
	switch {
	case region == "T1" && onlyCode && identityCodes[coreda.StatusCode(d.Code)] && coreda.StatusCode(p.Code) == coreda.StatusError:
		x.finding(findingIdentity, clause, fmt.Sprintf("direct %s -> proxied %s", codeName(d.Code), codeName(p.Code)), detail, w)
	case region == "T2" && onlyCode && coreda.StatusCode(d.Code) == coreda.StatusError && coreda.StatusCode(p.Code) == coreda.StatusContextCanceled:
		x.finding(findingCanceled, clause, fmt.Sprintf("direct %s -> proxied %s", codeName(d.Code), codeName(p.Code)), detail, w)
	default:
		r.Violation(clause, detail, w)
		cr.aborted = true // the two worlds may have diverged; later calls of this case say nothing
	}
}

// unpromised says whether the error scripted for this call lies outside the statement's "every error the
// DA interface defines" + cancellation: texts that merely look like a sentinel's, and the standard library's
// context errors returned by the DA layer while the caller's context is alive (not a cancellation of this
// call). It returns a label, "" if the error is a promised one.
func unpromised(op Op) string {
	check := func(o Outcome) string {
		if o.Kind != "err" || o.Err == nil {
			return ""
		}
		switch o.Err.Form {
		case "look-prefix", "look-embed":
			return o.Err.Form
		}
		if (o.Err.Base == "context.Canceled" || o.Err.Base == "context.DeadlineExceeded") && op.ctx() == "live" {
			return o.Err.Base + "-under-a-live-context"
		}
		return ""
	}
	if u := check(op.Out); u != "" {
		return u
	}
	if op.GetFail != nil {
		return check(op.GetFail.Out)
	}
	return ""
}

// finding reports a failure of predicted shape. Every distinct (finding, classes) pair is reported once;
// repetitions are counted.
func (x *runner) finding(id, clause, shape, detail string, w map[string]any) {
	x.r.Count("finding_hits/"+id, 1)
	x.mu.Lock()
	k := id + "|" + shape
	seen := x.reported[k]
	x.reported[k] = true
	x.mu.Unlock()
	if seen && !x.r.IsKnown(id) {
		return
	}
	x.r.Finding(id, clause, detail, w)
}

func errText(e error) string {
	if e == nil {
		return ""
	}
	return e.Error()
}

func opString(o Op) string {
	switch o.Kind {
	case "submit":
		return fmt.Sprintf("submit%v->%s/%s", sizesShort(o.Sizes), o.Out, o.ctx())
	case "retrieve":
		s := fmt.Sprintf("retrieve(%s)->%s/%s", o.HSel, o.Out, o.ctx())
		if o.GetFail != nil {
			s += fmt.Sprintf(" get#%d->%s", o.GetFail.Chunk, o.GetFail.Out)
		}
		return s
	}
	if o.Kind == "call" {
		return fmt.Sprintf("%s(%s%s %v)->%s", o.Method, o.IDSel, o.ProofSel, sizesShort(o.Sizes), o.Out)
	}
	return fmt.Sprintf("advance+%d", o.By)
}

func sizesShort(s []int) string {
	if len(s) <= 8 {
		return fmt.Sprint(s)
	}
	return fmt.Sprintf("[%d %d %d … %d blobs]", s[0], s[1], s[2], len(s))
}

// callFailed files a helper call that did not return normally: a panic on the proxied path is a
// violation (the direct path does not panic on these inputs), anything else is undecidable.
func (cr *caseRun) callFailed(opIdx int, clause, where string, err error) {
	var pe *panicError
	if errors.As(err, &pe) && strings.HasPrefix(where, "proxied") {
		cr.x.r.Violation(clause, fmt.Sprintf("case %d (%s %s) op %d %s: the %s call panicked: %s", cr.c.ID, cr.c.Part, cr.c.Name, opIdx, opString(cr.c.Ops[opIdx]), where, trunc(pe.msg, 1500)),
			cr.x.witness(cr, opIdx, nil, nil, map[string]any{"panic": pe.msg}))
		cr.aborted = true
		return
	}
	cr.inconclusive(opIdx, where+": "+trunc(err.Error(), 400))
}

func (cr *caseRun) inconclusive(opIdx int, why string) {
	cr.x.r.Inconclusive(fmt.Sprintf("case %d (%s %s) op %d: %s", cr.c.ID, cr.c.Part, cr.c.Name, opIdx, why))
	cr.aborted = true
}

// lastSubmitRec returns the submit record among recs (at most one per helper call).
func lastSubmitRec(recs []callRec) *callRec {
	for i := len(recs) - 1; i >= 0; i-- {
		if recs[i].Kind == "submit" {
			return &recs[i]
		}
	}
	return nil
}

// fitCal is what the harness learnt about the client's notion of "fits" for one limit L (see calibrate).
type fitCal struct {
	// InForce: a single blob of L+1 bytes is not sent, i.e. the limit the harness set (or read from the
	// exported field) is at most L as far as the client is concerned.
	InForce bool `json:"limit_in_force"`
	// Raw: a single blob of exactly L bytes is sent whole. Together with InForce this anchors the client's
	// predicate to plain byte counting; a client that charges framing overhead or encoded size refuses it.
	Raw  bool   `json:"single_blob_of_exactly_the_limit_is_sent"`
	Note string `json:"note,omitempty"`
}

func (c fitCal) String() string {
	switch {
	case !c.InForce:
		return "unknown (limit not in force)"
	case c.Raw:
		return "anchored to raw byte counts"
	}
	return "stricter than raw byte counts (judged by the client's own answers)"
}

var probeSeq struct {
	sync.Mutex
	n int
}

// clientSends asks the client, without disturbing the world, how many of the given blobs it would pass on:
// the call goes through the real client and server to the remote backing, which is scripted to record and
// discard it. -1: the backing was not called (the client refused or the call failed).
func (p *pair) clientSends(blobs [][]byte) (int, error) {
	probeSeq.Lock()
	probeSeq.n++
	tag := fmt.Sprintf("c16/probe/%d", probeSeq.n)
	probeSeq.Unlock()
	p.remote.scriptSubmit(tag, Outcome{Kind: "discard"})
	r0 := p.remote.logLen()
	var callErr error
	if err := runCall(p.remote, "live", func(ctx context.Context) {
		_, callErr = p.proxied.SubmitWithOptions(ctx, blobs, 0, callerNamespace, []byte(tag))
	}); err != nil {
		return -1, err
	}
	_ = callErr
	for _, rec := range p.remote.logFrom(r0) {
		if rec.Kind == "submit" && rec.Tag == tag {
			if len(rec.Received) > len(blobs) || !sameList(rec.Received, blobs[:len(rec.Received)]) {
				return -1, fmt.Errorf("probe: what arrived is not a prefix of what was given")
			}
			return len(rec.Received), nil
		}
	}
	return -1, nil
}

// calibrate learns, for one client limit (0 = the one NewClient chooses), whether the limit is in force
// and whether the client counts raw bytes.
func calibrate(clientLimit uint64, logger logging.EventLogger) (fitCal, uint64, error) {
	p, err := newPair(cfgVariants[0], clientLimit, logger)
	if err != nil {
		return fitCal{}, 0, err
	}
	defer p.close()
	L := p.limit
	atLimit, err := p.clientSends([][]byte{make([]byte, L)})
	if err != nil {
		return fitCal{}, L, err
	}
	above, err := p.clientSends([][]byte{make([]byte, L+1)})
	if err != nil {
		return fitCal{}, L, err
	}
	c := fitCal{InForce: above != 1, Raw: atLimit == 1}
	if !c.InForce {
		c.Note = fmt.Sprintf("a single blob of %d bytes was passed on although the limit is %d: the client does not filter with the value of its MaxBlobSize field", L+1, L)
	}
	return c, L, nil
}

func rawSum(b [][]byte) uint64 {
	var s uint64
	for _, x := range b {
		s += uint64(len(x))
	}
	return s
}

func (cr *caseRun) doSubmit(i int, op Op) {
	x, r, p := cr.x, cr.x.r, cr.p
	blobs := mkBlobs(cr.c.Seed, i, op.Sizes)
	tag := fmt.Sprintf("c16/%d/%d", cr.c.ID, i)
	p.remote.scriptSubmit(tag, op.Out)
	p.direct.scriptSubmit(tag, op.Out)
	k, tooBig := refPrefix(op.Sizes, p.limit)
	sizeClass := "fit"
	switch {
	case len(op.Sizes) == 0:
		sizeClass = "empty"
	case tooBig:
		sizeClass = fmt.Sprintf("toobig@%d", min(k, 9))
	case k < len(op.Sizes):
		sizeClass = "cut"
	}
	fmt.Fprintf(&cr.key, "S%s/%s/%s/n%d;", sizeClass, op.Out, op.ctx(), bucket(len(op.Sizes)))
	if sizeClass != "fit" || op.Out.Kind != "real" || op.ctx() != "live" {
		cr.nontriv = true
	}

	// A DA layer that answers late: the two paths wait at the same time (the direct call is started here, with the
	// whole list - the generator only scripts a late answer for a list that fits the client's limit, which the size
	// clause below checks on what the DA layer behind the proxy received).
	type directDone struct {
		res coreda.ResultSubmit
		rec *callRec
		err error
	}
	var early chan directDone
	if op.Out.Kind == "slow" && op.ctx() == "live" && sizeClass == "fit" {
		early = make(chan directDone, 1)
		go func() {
			var dd directDone
			d0 := p.direct.logLen()
			dd.err = runCall(p.direct, "live", func(ctx context.Context) {
				dd.res = types.SubmitWithHelpers(ctx, p.direct, x.logger, blobs, op.Gas, []byte(tag))
			})
			dd.rec = lastSubmitRec(p.direct.logFrom(d0))
			early <- dd
		}()
	}

	// proxied path
	r0 := p.remote.logLen()
	var pres coreda.ResultSubmit
	if err := runCall(p.remote, op.ctx(), func(ctx context.Context) {
		pres = types.SubmitWithHelpers(ctx, p.proxied, x.logger, blobs, op.Gas, []byte(tag))
	}); err != nil {
		cr.callFailed(i, "submit-agree", "proxied submit", err)
		return
	}
	po := obsSubmit(pres)
	rrec := lastSubmitRec(p.remote.logFrom(r0))
	m := -1
	if rrec != nil {
		m = len(rrec.Received)
	}

	if op.ctx() != "live" && rrec == nil && !cr.cal.Raw && coreda.StatusCode(po.Code) == coreda.StatusTooBig {
		// A client that counts sizes more strictly than raw bytes refused a list the generator took for fitting,
		// in a call whose context is dead as well: two causes of failure in one call, no order of precedence in
		// the statement. Neither DA layer was touched; the call is not judged.
		r.Count("two_causes_in_one_call_under_a_stricter_client_predicate:not_judged", 1)
		return
	}

	// (c) size clause and count clause, on the proxied side alone
	refusedByClient := false
	if op.ctx() == "live" {
		w := func() map[string]any {
			ex := map[string]any{"raw_byte_prefix_k": k, "first_unfitting_blob_is_itself_too_big": tooBig}
			if rrec != nil {
				ex["backing_received_sizes"] = sizesOf(rrec.Received)
				ex["backing_stored"] = rrec.Stored
			} else {
				ex["backing_received_sizes"] = "not called"
			}
			return x.witness(cr, i, nil, &po, ex)
		}
		fail := func(clause, format string, a ...any) {
			r.Violation(clause, fmt.Sprintf("case %d (%s) op %d %s: ", cr.c.ID, cr.c.Name, i, opString(op))+fmt.Sprintf(format, a...), w())
			cr.aborted = true
		}
		switch {
		case rrec == nil && len(blobs) == 0:
			// an empty list may be answered without a round trip
		case rrec == nil:
			// The client sent nothing. The only reason the statement knows is "blob too big": some blob of
			// the list must not fit by itself (by raw size, or, for a client that counts differently, by
			// the client's own answer when given that blob alone).
			refusedByClient = true
			justified := false
			// only a blob the packing has to look at can justify refusing everything: one of the k leading blobs that
			// fit together, or the first one behind them; an oversize blob further back is behind the cut either way
			for j, b := range blobs {
				if j > k {
					break
				}
				if uint64(len(b)) > p.limit {
					justified = true
					break
				}
			}
			if !justified && !cr.cal.Raw {
				for j, b := range blobs {
					if j == 16 || j > k {
						break
					}
					n, err := p.clientSends([][]byte{b})
					if err != nil {
						cr.inconclusive(i, "probe: "+err.Error())
						return
					}
					r.Count("own_predicate_probes", 1)
					if n != 1 {
						justified = true
						break
					}
				}
				if !justified && k >= 16 {
					cr.inconclusive(i, "nothing was sent and none of the first 16 blobs is refused alone; the others were not probed")
					return
				}
			}
			if !justified {
				fail("longest-prefix", "every blob fits the client's limit %d on its own (the first %d together do), but nothing reached the DA layer; result code=%s count=%d message=%q",
					p.limit, k, codeName(po.Code), po.Count, trunc(po.Message, 200))
				return
			}
			r.Hit("too-big")
			if coreda.StatusCode(po.Code) != coreda.StatusTooBig || po.Count != 0 || len(po.ids) != 0 {
				fail("too-big", "a blob is above the client's limit %d and nothing was sent, but the result is code=%s count=%d ids=%d (want TooBig, 0, none)",
					p.limit, codeName(po.Code), po.Count, len(po.ids))
				return
			}
		default:
			if m < len(blobs) {
				r.Hit("longest-prefix")
			}
			if tooBig {
				r.Hit("too-big")
			}
			switch {
			case m > len(blobs) || !sameList(rrec.Received, blobs[:m]):
				fail("longest-prefix", "the DA layer received %d blobs of sizes %v: not a prefix of the %d blobs given", m, sizesShort(sizesOf(rrec.Received)), len(blobs))
				return
			case rawSum(rrec.Received) > p.limit:
				fail("longest-prefix", "the DA layer received %d blobs of %d bytes in all, above the client's limit %d", m, rawSum(rrec.Received), p.limit)
				return
			case m == 0:
				fail("longest-prefix", "a submission without blobs was sent for a list of %d blobs (limit %d)", len(blobs), p.limit)
				return
			case m < len(blobs) && cr.cal.Raw && m < k:
				fail("longest-prefix", "client limit %d (a single blob of exactly that size is sent), the first %d of %d blobs fit, but the DA layer received only %d (sizes %v)",
					p.limit, k, len(blobs), m, sizesShort(sizesOf(rrec.Received)))
				return
			case m < len(blobs) && !cr.cal.Raw:
				// the client counts sizes its own way: the prefix is the longest if the client itself, given
				// one blob more, does not pass all of them on
				n, err := p.clientSends(blobs[:m+1])
				if err != nil {
					cr.inconclusive(i, "probe: "+err.Error())
					return
				}
				r.Count("own_predicate_probes", 1)
				if n == m+1 {
					fail("longest-prefix", "the client passed on %d of %d blobs, but given the first %d alone it passes on all of them: the prefix was not the longest that fits", m, len(blobs), m+1)
					return
				}
			}
			if rrec.Tag != tag || rrec.GasPrice != op.Gas {
				fail("wire-args", "options/gas price changed on the way: sent (%q, %v) arrived (%q, %v)", tag, op.Gas, rrec.Tag, rrec.GasPrice)
				return
			}
			r.Hit("wire-args")
		}
		storedN := 0
		var storedIDs [][]byte
		if rrec != nil {
			storedN, storedIDs = rrec.Stored, rrec.IDs
		}
		if storedN > 0 || po.Count > 0 {
			r.Hit("count-is-stored")
		}
		bad := po.Count > uint64(storedN)
		if coreda.StatusCode(po.Code) == coreda.StatusSuccess {
			bad = bad || po.Count != uint64(storedN) || !sameList(po.ids, storedIDs)
		}
		if storedN > 0 && !sameList(rrec.Received[:storedN], blobs[:storedN]) {
			bad = true
		}
		if bad {
			fail("count-is-stored", "result code=%s says %d blobs submitted (%d ids) but the DA layer behind the proxy stored %d of the %d given",
				codeName(po.Code), po.Count, len(po.ids), storedN, len(blobs))
			return
		}
	}

	// direct path: "the same call" is the one the client made, i.e. the direct DA layer is given what the DA
	// layer behind the proxy received (checked above to be a prefix within the limit and the longest one)
	var do Obs
	var drec *callRec
	if refusedByClient {
		// nothing was sent: the reference is the statement's "blob too big", checked above; the direct
		// backing is not called either, so that the two stay in step
		do = Obs{Code: uint64(coreda.StatusTooBig)}
	} else if early != nil {
		dd := <-early
		if dd.err != nil {
			cr.callFailed(i, "submit-agree", "direct submit", dd.err)
			return
		}
		if rrec != nil && m != len(blobs) {
			// a client with a stricter notion of size cut a list the generator took for fitting (accepted above): the
			// direct DA layer was given more than the one behind the proxy, the two results cannot be compared
			cr.inconclusive(i, "late answer: the client passed on only a part of a small list; the direct call had been started with the whole list")
			return
		}
		r.Hit("submit-agree/late-answer")
		do = obsSubmit(dd.res)
		drec = dd.rec
	} else {
		dblobs := blobs[:min(k, len(blobs))]
		if rrec != nil && m <= len(blobs) {
			dblobs = blobs[:m]
		}
		d0 := p.direct.logLen()
		var dres coreda.ResultSubmit
		if err := runCall(p.direct, op.ctx(), func(ctx context.Context) {
			dres = types.SubmitWithHelpers(ctx, p.direct, x.logger, dblobs, op.Gas, []byte(tag))
		}); err != nil {
			cr.callFailed(i, "submit-agree", "direct submit", err)
			return
		}
		do = obsSubmit(dres)
		drec = lastSubmitRec(p.direct.logFrom(d0))
	}
	if coreda.StatusCode(do.Code) == coreda.StatusSuccess && do.Count > 0 {
		cr.lastH = do.Height
	}
	var backErr, wireErr error
	if rrec != nil && rrec.Err != nil {
		backErr, wireErr = rrec.Err, rrec.Err
	} else if drec != nil && drec.Err != nil {
		backErr = drec.Err
	}
	storedSame := true
	if drec != nil || rrec != nil {
		var ds, rs int
		var di, ri [][]byte
		if drec != nil {
			ds, di = drec.Stored, drec.IDs
		}
		if rrec != nil {
			rs, ri = rrec.Stored, rrec.IDs
		}
		storedSame = ds == rs && sameList(di, ri)
	}
	x.judge(cr, i, "submit-agree", do, po, backErr, wireErr, storedSame)
}

func sizesOf(b [][]byte) []int {
	out := make([]int, len(b))
	for i := range b {
		out[i] = len(b[i])
	}
	return out
}

func bucket(n int) int {
	switch {
	case n <= 3:
		return n
	case n <= 10:
		return 10
	case n <= 100:
		return 100
	}
	return 1000
}

func (cr *caseRun) resolveHeight(op Op) uint64 {
	cur := cr.p.direct.height()
	switch op.HSel {
	case "abs":
		return op.Height
	case "last":
		return cr.lastH
	case "cur":
		return cur
	case "gap":
		return cr.gapH
	case "zero":
		return 0
	case "future":
		return cur + 1
	case "future-far":
		return cur + 1000
	case "future-2p53":
		return 1<<53 + 1
	case "future-max":
		return math.MaxUint64
	}
	return cur
}

// calls is the sequence of backing-level calls a helper call caused, in a comparable form.
func callsKey(recs []callRec) string {
	var sb strings.Builder
	for _, c := range recs {
		fmt.Fprintf(&sb, "%s@%d", c.Kind, c.Height)
		if c.Kind == "get" {
			fmt.Fprintf(&sb, "[%d ids", len(c.GetIDs))
			for _, id := range c.GetIDs {
				if len(id) >= 16 {
					sb.WriteString(" " + vk.Hex(id[8:16]))
				} else {
					sb.WriteString(" ?" + vk.Hex(id))
				}
			}
			sb.WriteString("]")
		}
		sb.WriteString(";")
	}
	return sb.String()
}

func (cr *caseRun) doRetrieve(i int, op Op) {
	x, r, p := cr.x, cr.x.r, cr.p
	h := cr.resolveHeight(op)
	hclass := op.HSel
	fmt.Fprintf(&cr.key, "R%s/%s/%s", hclass, op.Out, op.ctx())
	if op.GetFail != nil {
		fmt.Fprintf(&cr.key, "/get#%d->%s", op.GetFail.Chunk, op.GetFail.Out)
	}
	cr.key.WriteString(";")
	if op.Out.Kind != "real" || op.GetFail != nil || op.ctx() != "live" || (op.HSel != "last" && op.HSel != "cur") {
		cr.nontriv = true
	}
	for _, b := range []*backing{p.remote, p.direct} {
		if op.Out.Kind != "real" {
			o := op.Out
			b.scriptGetIDs(h, &o)
		}
		if op.GetFail != nil {
			b.scriptGetFail(&getFail{Height: h, Chunk: op.GetFail.Chunk, Out: op.GetFail.Out})
		}
	}
	defer func() {
		for _, b := range []*backing{p.remote, p.direct} {
			b.scriptGetIDs(h, nil)
			b.scriptGetFail(nil)
		}
	}()
	r0 := p.remote.logLen()
	var pres coreda.ResultRetrieve
	if err := runCall(p.remote, op.ctx(), func(ctx context.Context) {
		pres = types.RetrieveWithHelpers(ctx, p.proxied, x.logger, h, callerNamespace)
	}); err != nil {
		cr.callFailed(i, "retrieve-agree", "proxied retrieve", err)
		return
	}
	rrecs := p.remote.logFrom(r0)
	d0 := p.direct.logLen()
	var dres coreda.ResultRetrieve
	if err := runCall(p.direct, op.ctx(), func(ctx context.Context) {
		dres = types.RetrieveWithHelpers(ctx, p.direct, x.logger, h, callerNamespace)
	}); err != nil {
		cr.callFailed(i, "retrieve-agree", "direct retrieve", err)
		return
	}
	drecs := p.direct.logFrom(d0)
	do, po := obsRetrieve(dres), obsRetrieve(pres)
	if coreda.StatusCode(do.Code) == coreda.StatusSuccess && coreda.StatusCode(po.Code) == coreda.StatusSuccess {
		r.Hit("timestamp-agree")
		x.mu.Lock()
		if do.ts.Equal(po.ts) {
			x.tsEqual++
		} else {
			x.tsDiff++
		}
		x.mu.Unlock()
	}
	var backErr error
	for _, c := range rrecs {
		if c.Err != nil {
			backErr = c.Err
		}
	}
	if backErr == nil {
		for _, c := range drecs {
			if c.Err != nil {
				backErr = c.Err
			}
		}
	}
	// Whether the same backing-level calls reached the DA layer (height, ids and their order) is recorded
	// as evidence only: the statement speaks about what comes back, and a proxy may e.g. save a round trip.
	if op.ctx() != "precancel" {
		if dk, rk := callsKey(drecs), callsKey(rrecs); dk != rk {
			r.Count("retrieve_backing_call_sequences_differ", 1)
		} else {
			r.Count("retrieve_backing_call_sequences_equal", 1)
		}
	}
	x.judge(cr, i, "retrieve-agree", do, po, backErr, nil, true)
}

// errIdentity lists which of the interface's errors (and the two context errors) e is, by errors.Is.
func errIdentity(e error) string {
	if e == nil {
		return ""
	}
	var out []string
	for _, s := range sentinels {
		if errors.Is(e, s.Err) {
			out = append(out, s.Name)
		}
	}
	if errors.Is(e, context.Canceled) {
		out = append(out, "context.Canceled")
	}
	if errors.Is(e, context.DeadlineExceeded) {
		out = append(out, "context.DeadlineExceeded")
	}
	return strings.Join(out, "+")
}

// doCall makes one call of an interface method that has no node-side helper (Submit, GetProofs, Validate,
// Commit, GasPrice, GasMultiplier) on both paths with the same arguments and compares what comes back:
// the values, and whether there is an error. Which error it is (identity) is only recorded: the statement
// promises identical classification for the classes the node's helpers tell apart, and those helpers
// sit on SubmitWithOptions / GetIDs / Get.
func (cr *caseRun) doCall(i int, op Op) {
	x, r, p := cr.x, cr.x.r, cr.p
	fmt.Fprintf(&cr.key, "C%s/%s%s/%s/n%d;", op.Method, op.IDSel, op.ProofSel, op.Out, bucket(len(op.Sizes)))
	if op.Out.Kind != "real" || op.IDSel != "last" || op.ProofSel != "" {
		cr.nontriv = true
	}
	name := strings.ToLower(op.Method)
	// arguments (the ids handed out are the same on both paths: compared by submit-agree)
	var ids [][]byte
	if strings.HasPrefix(op.IDSel, "last") {
		for _, st := range p.direct.image()[cr.lastH] {
			ids = append(ids, st.id)
		}
	}
	if strings.HasSuffix(op.IDSel, "unknown") {
		ids = append(ids, []byte("c16-no-such-id-0123456789abcdef"))
	}
	var proofs [][]byte
	if op.Method == "Validate" {
		for _, id := range ids {
			pr := append([]byte("proof:"), id...)
			if st, ok := p.direct.lookup(id); ok {
				pr = proofOf(st)
			}
			proofs = append(proofs, pr)
		}
		switch op.ProofSel {
		case "/swap":
			if len(proofs) > 1 {
				proofs[0], proofs[len(proofs)-1] = proofs[len(proofs)-1], proofs[0]
			}
		case "/corrupt":
			for j := range proofs {
				if j%2 == 0 {
					proofs[j] = append(append([]byte{}, proofs[j]...), 'x')
				}
			}
		case "/short":
			if len(proofs) > 0 {
				proofs = proofs[:len(proofs)-1]
			}
		}
	}
	blobs := mkBlobs(cr.c.Seed, i, op.Sizes)
	if op.Method == "Submit" {
		p.remote.scriptSubmit("", op.Out)
		p.direct.scriptSubmit("", op.Out)
	} else if op.Out.Kind == "err" {
		o := op.Out
		p.remote.scriptMethod(name, &o)
		p.direct.scriptMethod(name, &o)
	}
	defer func() {
		for _, b := range []*backing{p.remote, p.direct} {
			b.scriptSubmit("", real())
			b.scriptMethod(name, nil)
		}
	}()
	type result struct {
		lists [][]byte
		bools []bool
		num   float64
		err   error
	}
	call := func(da coreda.DA, b *backing) (res result, recs []callRec, failed error) {
		l0 := b.logLen()
		failed = runCall(b, "live", func(ctx context.Context) {
			switch op.Method {
			case "Submit":
				res.lists, res.err = da.Submit(ctx, blobs, op.Gas, callerNamespace)
			case "GetProofs":
				res.lists, res.err = da.GetProofs(ctx, ids, callerNamespace)
			case "Validate":
				res.bools, res.err = da.Validate(ctx, ids, proofs, callerNamespace)
			case "Commit":
				res.lists, res.err = da.Commit(ctx, blobs, callerNamespace)
			case "GasPrice":
				res.num, res.err = da.GasPrice(ctx)
			case "GasMultiplier":
				res.num, res.err = da.GasMultiplier(ctx)
			}
		})
		return res, b.logFrom(l0), failed
	}
	pr, precs, err := call(p.proxied, p.remote)
	if err != nil {
		cr.callFailed(i, "method-agree", "proxied "+op.Method, err)
		return
	}
	dr, drecs, err := call(p.direct, p.direct)
	if err != nil {
		cr.callFailed(i, "method-agree", "direct "+op.Method, err)
		return
	}
	r.Hit("method-agree")
	r.Hit("method-agree/" + op.Method)
	if dr.err != nil || pr.err != nil {
		r.Hit("error-class-agree")
		if errIdentity(dr.err) == errIdentity(pr.err) {
			r.Count("method_error_identity_same", 1)
		} else {
			r.Count("method_error_identity_differs/"+op.Method, 1)
		}
	}
	var df []string
	if (dr.err == nil) != (pr.err == nil) {
		df = append(df, "error")
	}
	if !sameList(dr.lists, pr.lists) {
		df = append(df, "values")
	}
	if len(dr.bools) != len(pr.bools) {
		df = append(df, "results")
	} else {
		for j := range dr.bools {
			if dr.bools[j] != pr.bools[j] {
				df = append(df, "results")
				break
			}
		}
	}
	if dr.num != pr.num {
		df = append(df, "value")
	}
	if op.Method == "Submit" {
		var ds, ps *callRec
		if ds, ps = lastSubmitRec(drecs), lastSubmitRec(precs); ds != nil && ps != nil {
			if ds.Stored != ps.Stored || !sameList(ds.IDs, ps.IDs) {
				df = append(df, "stored")
			}
			if ps.GasPrice != op.Gas {
				df = append(df, "gas price received")
			}
		} else if (ds == nil) != (ps == nil) {
			df = append(df, "whether the DA layer was called")
		}
		if dr.err == nil && len(dr.lists) > 0 {
			if h, _, e := coreda.SplitID(dr.lists[0]); e == nil {
				cr.lastH = h
			}
		}
	}
	if len(df) == 0 {
		return
	}
	show := func(res result) map[string]any {
		return map[string]any{"values": short(res.lists), "results": res.bools, "value": res.num, "error": errText(res.err)}
	}
	r.Violation("method-agree", fmt.Sprintf("case %d (%s %s) op %d %s: the direct and the proxied call differ in %v: direct (%d values, %v, %v, err=%q) | proxied (%d values, %v, %v, err=%q)",
		cr.c.ID, cr.c.Part, cr.c.Name, i, opString(op), df, len(dr.lists), dr.bools, dr.num, errText(dr.err), len(pr.lists), pr.bools, pr.num, errText(pr.err)),
		x.witness(cr, i, nil, nil, map[string]any{"direct_result": show(dr), "proxied_result": show(pr), "differs_in": df, "ids_given": short(ids), "proofs_given": short(proofs)}))
	cr.aborted = true
}

func trunc(s string, n int) string {
	if len(s) > n {
		return s[:n] + "…"
	}
	return s
}

func (x *runner) runCase(c Case) {
	r := x.r
	cal := x.cal[c.ClientLimit]
	if !cal.InForce {
		// the harness cannot say which limit this client filters with: nothing about sizes can be decided
		r.Count("cases_skipped_client_limit_not_in_force", 1)
		return
	}
	p, err := newPair(c.Cfg, c.ClientLimit, x.logger)
	if err != nil {
		r.Inconclusive(fmt.Sprintf("case %d: world did not start: %v", c.ID, err))
		return
	}
	defer p.close()
	cr := &caseRun{x: x, c: c, p: p, cal: cal}
	price, mult := 0.001+float64(c.Seed%1000)/1e4, 1.1+float64(c.Seed%7)/10
	p.direct.setGas(price, mult)
	p.remote.setGas(price, mult)
	switch c.BackLimit {
	case "same":
		p.direct.cfg.Limit, p.remote.cfg.Limit = p.limit, p.limit
	case "half":
		p.direct.cfg.Limit, p.remote.cfg.Limit = max(p.limit/2, 1), max(p.limit/2, 1)
	}
	fmt.Fprintf(&cr.key, "%s|L%d|%s|%s/%s|", c.Part, c.ClientLimit, c.BackLimit, c.Cfg.FutureForm, c.Cfg.NotFoundForm)
	executed := 0
	for i, op := range c.Ops {
		if cr.aborted {
			break
		}
		switch op.Kind {
		case "advance":
			cr.gapH = p.direct.height() + 1
			p.direct.advance(op.By)
			p.remote.advance(op.By)
			fmt.Fprintf(&cr.key, "A%d;", op.By)
		case "submit":
			cr.doSubmit(i, op)
			executed++
		case "retrieve":
			cr.doRetrieve(i, op)
			executed++
		case "call":
			cr.doCall(i, op)
			executed++
		}
	}
	r.Count("calls_compared", int64(executed))
	if !cr.aborted {
		// what the two DA layers hold in the end
		r.Hit("state-agree")
		di, ri := p.direct.image(), p.remote.image()
		same := len(di) == len(ri) && p.direct.height() == p.remote.height()
		for h, dl := range di {
			rl := ri[h]
			if len(dl) != len(rl) {
				same = false
				break
			}
			for j := range dl {
				if !bytes.Equal(dl[j].id, rl[j].id) || !bytes.Equal(dl[j].blob, rl[j].blob) {
					same = false
				}
			}
		}
		if !same {
			r.Violation("state-agree", fmt.Sprintf("case %d (%s %s): after the same calls the DA layer behind the proxy holds something else than the one called directly (heights %d vs %d, non-empty heights %d vs %d)",
				c.ID, c.Part, c.Name, p.direct.height(), p.remote.height(), len(di), len(ri)), x.witness(cr, -1, nil, nil, nil))
		}
	}
	r.Eval(cr.key.String(), cr.nontriv, map[string]any{"part": c.Part, "name": c.Name, "client_limit": p.limit, "back_limit": c.BackLimit, "ops": opsStrings(c.Ops)})
}

func opsStrings(ops []Op) []string {
	out := make([]string, len(ops))
	for i, o := range ops {
		out[i] = opString(o)
	}
	return out
}

// Run is the check entry point.
func Run(r *vk.Run) {
	world.Silence()
	logger := logging.Logger("c16")
	x := &runner{r: r, logger: logger, table: map[string]tableRow{}, reported: map[string]bool{}}

	r.Rule = "A case is a sequence of node-side calls (types.SubmitWithHelpers / types.RetrieveWithHelpers, harness height advances) made call by call on a " +
		"scriptable DA layer directly and on an identical one behind the real jsonrpc server+client on loopback. Part E enumerates, in both tiers and completely, " +
		"every sentinel of core/da and the two context errors x {plain, wrapped, doubly wrapped, sentinel first, sentinel in the middle, same text without identity, text merely containing the sentinel's (the last three kinds recorded, not judged)} " +
		"x call kind {SubmitWithOptions, GetIDs, Get chunk 0 and 2}, the six interface methods without a helper (Submit, GetProofs, Validate, Commit, GasPrice, GasMultiplier: honest, failing, unknown ids, swapped/corrupted/missing proofs), the error-free forms of 'nothing here', cancellation/deadline before and during a blocked call on each call kind, " +
		"and heights with blobs / without / zero / from the future (near, far, >2^53, max) — 'exhaustive' refers to this matrix. Part S enumerates blob lists around the client's limit " +
		"(limits 1, 7, 100, 1000 and the default; sums L-1, L, L+1; oversize blob at each position; empty; zero-length blobs; 1000 small blobs; DA layer with the same, no, or half the limit). " +
		"Part R draws random sequences of 8-19 calls from all of these. A case is non-trivial when at least one call has a non-accept outcome (scripted error/partial/blocking outcome, dead or dying context, " +
		"batch not fitting the limit, or a height without blobs / from the future); distinct = part, limits, DA manners and the per-call (kind, size class, outcome, context) sequence."
	r.Assume("the two backings are instances of one deterministic type (props/c16/backing.go); ids are (height, running number, hash), so equal call sequences give equal ids")
	r.Assume("the client's size limit is the exported field jsonrpc.API.MaxBlobSize: NewClient sets the package default; small limits are set through the field as in da/jsonrpc/proxy_test.go; whether the client filters with that value, and whether it counts raw bytes, is measured once per limit (client_fit_calibration)")
	r.Assume("the helpers types.SubmitWithHelpers/RetrieveWithHelpers are the observation point on both paths; they are not themselves judged")
	r.Assume("HTTP transport on 127.0.0.1 (the only one NewClient is used with by the node's commands); websocket transport not exercised")

	// learn the limit NewClient chooses, and how the client counts against it
	x.cal = map[uint64]fitCal{}
	cal0, defaultLimit, err := calibrate(0, logger)
	if err != nil {
		r.Inconclusive("cannot start a jsonrpc server/client pair on loopback / calibrate it: " + err.Error())
		return
	}
	x.cal[0] = cal0
	r.Set("client_default_limit", defaultLimit)

	var cases []Case
	cases = append(cases, genEnumerated(r.Rand("enumerated"))...)
	nEnum := len(cases)
	cases = append(cases, genSizes(r.Rand("sizes"), defaultLimit, r.Quick())...)
	nSize := len(cases) - nEnum
	cases = append(cases, genRandom(r.Rand("random-clean"), r.N(600, 12000), false)...)
	cases = append(cases, genRandom(r.Rand("random-trigger"), r.N(80, 1000), true)...)
	// a DA layer that answers a submission late but well inside the node's own budget (block.Manager allows 60 s per
	// submission): the ids must come back through the proxy as they do in process. One case, 11.5 s of real waiting
	// on both paths at once; it is handed to a worker first, so the run takes about that long and no longer.
	cases = append(cases, Case{Part: "E-slow", Name: "submit answered after 11.5 s", Cfg: cfgVariants[0], BackLimit: "none", Seed: r.Rand("slow").Int63(),
		Ops: []Op{submit(10, 20), submit(5, 6, 7).with(Outcome{Kind: "slow", DelayMs: 11500}).probe(), submit(9), retrieve("last")}})
	for i := range cases {
		cases[i].ID = i
		// safety net for the rule "a blob the client must refuse is never combined with a scripted
		// failure or a dead context" (see the reading above): enforce it on whatever was generated
		lim := cases[i].ClientLimit
		if lim == 0 {
			lim = defaultLimit
		}
		for j := range cases[i].Ops {
			op := &cases[i].Ops[j]
			if op.Kind != "submit" {
				continue
			}
			if _, refused := refPrefix(op.Sizes, lim); (refused || len(op.Sizes) == 0) && (op.Out.Kind != "real" || op.ctx() != "live") {
				op.Out, op.Ctx = real(), ""
				r.Count("generated_ops_normalised", 1)
			}
		}
	}
	// calibrate every limit the cases set through the exported field (a client that copies the limit
	// elsewhere when it is built would not notice the override: then nothing can be decided for that limit)
	calEv := map[string]fitCal{"default": cal0}
	for _, c := range cases {
		if _, ok := x.cal[c.ClientLimit]; ok {
			continue
		}
		cal, _, err := calibrate(c.ClientLimit, logger)
		if err != nil {
			cal = fitCal{Note: "calibration failed: " + err.Error()}
		}
		x.cal[c.ClientLimit] = cal
		calEv[fmt.Sprint(c.ClientLimit)] = cal
	}
	for name, cal := range calEv {
		if !cal.InForce {
			r.Inconclusive(fmt.Sprintf("client limit %s: %s; the cases with this limit are not run", name, cal.Note))
		} else if !cal.Raw {
			r.Count("limits_where_client_counts_stricter_than_raw_bytes", 1)
		}
	}
	r.Set("client_fit_calibration", calEv)
	if only := os.Getenv("C16_ONLY"); only != "" { // development aid
		var f []Case
		for _, c := range cases {
			if strings.HasPrefix(c.Part, only) {
				f = append(f, c)
			}
		}
		cases = f
	}
	r.Set("cases_enumerated_fault_matrix", nEnum)
	r.Set("cases_size_limit", nSize)
	r.Set("cases_random", len(cases)-nEnum-nSize)

	ch := make(chan Case)
	var wg sync.WaitGroup
	for w := 0; w < 8; w++ {
		wg.Add(1)
		go func() {
			defer wg.Done()
			for c := range ch {
				x.runCase(c)
			}
		}()
	}
	for _, c := range cases {
		if c.Part == "E-slow" {
			ch <- c
		}
	}
	for _, c := range cases {
		if c.Part != "E-slow" {
			ch <- c
		}
	}
	close(ch)
	wg.Wait()

	rows := make([]tableRow, 0, len(x.table))
	for _, row := range x.table {
		rows = append(rows, row)
	}
	sort.Slice(rows, func(i, j int) bool { return rows[i].sortKey < rows[j].sortKey })
	r.Set("classification_table", rows)
	r.Set("timestamps_equal_vs_different", []int64{x.tsEqual, x.tsDiff})
	if os.Getenv("C16_TABLE") != "" {
		for _, row := range rows {
			b, _ := json.Marshal(row)
			fmt.Println("TABLE", string(b))
		}
	}
	r.SetExhaustive(os.Getenv("C16_ONLY") == "")

	for clause, n := range map[string]int64{"submit-agree": 100, "retrieve-agree": 100, "error-class-agree": 100, "cancel-agree": 10,
		"future-substring-agree": 10, "count-is-stored": 50, "longest-prefix": 30, "too-big": 15, "wire-args": 100, "state-agree": 100,
		"timestamp-agree": 50, "method-agree": 60, "method-agree/Submit": 5, "method-agree/GetProofs": 5, "method-agree/Validate": 5, "method-agree/Commit": 5,
		"method-agree/GasPrice": 3, "method-agree/GasMultiplier": 3, "submit-agree/late-answer": 1} {
		if os.Getenv("C16_ONLY") == "" {
			r.Require(clause, n)
		}
	}
}
