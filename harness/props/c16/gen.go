package c16

import (
	"fmt"
	"math/rand"
	"strings"
)

// GetFailSpec makes the Get call number Chunk (0-based, counted since the GetIDs of that height) fail.
type GetFailSpec struct {
	Chunk int     `json:"chunk"`
	Out   Outcome `json:"out"`
}

// Op is one node-side call (through types.SubmitWithHelpers / types.RetrieveWithHelpers), made on both
// paths, or a harness action on both backings.
type Op struct {
	Kind string `json:"kind"` // submit | retrieve | advance | call

	// call: one of the interface methods without a node-side helper
	Method   string `json:"method,omitempty"`    // Submit | GetProofs | Validate | Commit | GasPrice | GasMultiplier
	IDSel    string `json:"id_sel,omitempty"`    // last | last+unknown | unknown | none: the ids given to GetProofs / Validate
	ProofSel string `json:"proof_sel,omitempty"` // "" (genuine proofs) | /swap | /corrupt | /short

	// submit
	Sizes []int   `json:"sizes,omitempty"`
	Gas   float64 `json:"gas,omitempty"`

	// submit: scripted answer to SubmitWithOptions; retrieve: scripted answer to GetIDs
	Out Outcome `json:"out"`
	Ctx string  `json:"ctx,omitempty"` // live (default) | precancel | cancel | deadline

	// retrieve
	HSel    string       `json:"hsel,omitempty"` // last | cur | gap | zero | future | future-far | future-2p53 | future-max | abs
	Height  uint64       `json:"height,omitempty"`
	GetFail *GetFailSpec `json:"get_fail,omitempty"`

	// advance
	By uint64 `json:"by,omitempty"`

	// NoJudgeCode: the backing returns an error that is NOT one the DA interface defines but whose text
	// equals a sentinel's text (identity lost, text equal). No message-based transport can tell the two
	// apart and the statement only quantifies over the errors the interface defines: the status code of
	// such a call is recorded in the evidence but not compared. Everything else still is.
	NoJudgeCode bool `json:"no_judge_code,omitempty"`
	// Probe marks the op whose classification goes into the table of the evidence file.
	Probe bool `json:"probe,omitempty"`
}

// Case is one call sequence on a fresh world.
type Case struct {
	ID          int        `json:"id"`
	Part        string     `json:"part"`
	Name        string     `json:"name"`
	Cfg         BackingCfg `json:"backing"`
	ClientLimit uint64     `json:"client_limit"` // 0 = the limit NewClient chooses
	BackLimit   string     `json:"back_limit"`   // same | none | half (relative to the client's limit)
	Seed        int64      `json:"seed"`
	Ops         []Op       `json:"ops"`
}

func (o Op) ctx() string {
	if o.Ctx == "" {
		return "live"
	}
	return o.Ctx
}

func real() Outcome              { return Outcome{Kind: "real"} }
func errOut(b, f string) Outcome { return Outcome{Kind: "err", Err: &ErrSpec{Base: b, Form: f}} }
func submit(sizes ...int) Op     { return Op{Kind: "submit", Sizes: sizes, Out: real(), Gas: 0.002} }
func retrieve(sel string) Op     { return Op{Kind: "retrieve", HSel: sel, Out: real()} }
func (o Op) with(out Outcome) Op { o.Out = out; return o }
func call(method, idSel, proofSel string, sizes ...int) Op {
	return Op{Kind: "call", Method: method, IDSel: idSel, ProofSel: proofSel, Sizes: sizes, Out: real(), Gas: 0.75}
}
func (o Op) probe() Op            { o.Probe = true; return o }
func (o Op) inCtx(mode string) Op { o.Ctx = mode; return o }
func (o Op) getFail(c int, out Outcome) Op {
	o.GetFail = &GetFailSpec{Chunk: c, Out: out}
	return o
}

func smallSizes(rng *rand.Rand, n int) []int {
	s := make([]int, n)
	for i := range s {
		s[i] = 1 + rng.Intn(3)
	}
	return s
}

// split returns m non-negative parts with the given sum, every part <= maxPart where possible.
func split(rng *rand.Rand, sum, m int) []int {
	out := make([]int, m)
	rest := sum
	for i := 0; i < m-1; i++ {
		if rest > 0 {
			out[i] = rng.Intn(rest + 1)
			if i == 0 && out[i] == rest && rest > 1 {
				out[i] = rest / 2
			}
		}
		rest -= out[i]
	}
	out[m-1] = rest
	return out
}

// splitFit is split with every part <= maxPart (sum <= m*maxPart assumed).
func splitFit(rng *rand.Rand, sum, m, maxPart int) []int {
	for try := 0; try < 200; try++ {
		out := split(rng, sum, m)
		ok := true
		for _, v := range out {
			if v > maxPart {
				ok = false
			}
		}
		if ok {
			return out
		}
	}
	out := make([]int, m)
	for i := range out {
		out[i] = min(sum, maxPart)
		sum -= out[i]
	}
	return out
}

var cfgVariants = []BackingCfg{
	{FutureForm: "sentinel", NotFoundForm: "sentinel"},
	{FutureForm: "sametext", NotFoundForm: "empty"}, // the manners of core/da.DummyDA
	{FutureForm: "sentinel", NotFoundForm: "wrapped"},
}

// submitErrSpecs is the enumerated fault matrix for SubmitWithOptions: every sentinel of core/da and the two
// context errors, plain and wrapped, plus unrelated errors whose text contains a sentinel's text.
func submitErrSpecs() []ErrSpec {
	var out []ErrSpec
	for _, s := range sentinels {
		for _, f := range []string{"plain", "wrap", "wrap2", "prewrap", "midwrap", "look-prefix", "look-embed", "sametext"} {
			out = append(out, ErrSpec{s.Name, f})
		}
	}
	for _, b := range []string{"context.Canceled", "context.DeadlineExceeded"} {
		for _, f := range []string{"plain", "wrap", "wrap2"} {
			out = append(out, ErrSpec{b, f})
		}
	}
	out = append(out, ErrSpec{"generic", "plain"}, ErrSpec{"generic", "wrap"})
	return out
}

func getIDsErrSpecs() []ErrSpec {
	var out []ErrSpec
	for _, s := range sentinels {
		for _, f := range []string{"plain", "wrap", "prewrap", "sametext", "look-prefix", "look-embed"} {
			out = append(out, ErrSpec{s.Name, f})
		}
	}
	for _, b := range []string{"context.Canceled", "context.DeadlineExceeded"} {
		for _, f := range []string{"plain", "wrap"} {
			out = append(out, ErrSpec{b, f})
		}
	}
	out = append(out, ErrSpec{"generic", "plain"})
	return out
}

func getErrSpecs() []ErrSpec {
	var out []ErrSpec
	for _, s := range sentinels {
		out = append(out, ErrSpec{s.Name, "plain"}, ErrSpec{s.Name, "wrap"})
	}
	out = append(out, ErrSpec{"context.Canceled", "plain"}, ErrSpec{"context.DeadlineExceeded", "plain"}, ErrSpec{"generic", "plain"})
	return out
}

// genEnumerated builds the fault matrix (the same in both tiers and for every seed, apart from blob contents).
func genEnumerated(rng *rand.Rand) []Case {
	var cases []Case
	add := func(part, name string, lim uint64, back string, ops ...Op) {
		cfg := cfgVariants[len(cases)%len(cfgVariants)]
		cases = append(cases, Case{Part: part, Name: name, Cfg: cfg, ClientLimit: lim, BackLimit: back, Seed: rng.Int63(), Ops: ops})
	}
	// (1) every error x form on SubmitWithOptions
	for _, sp := range submitErrSpecs() {
		op := submit(5, 6, 7).with(errOut(sp.Base, sp.Form)).probe()
		op.NoJudgeCode = sp.Form == "sametext"
		add("E-submit", sp.String(), 1000, "none", submit(10, 20), op, submit(9), retrieve("last"))
	}
	// (2) every error x form on GetIDs, and the two error-free ways of saying "nothing here"
	for _, sp := range getIDsErrSpecs() {
		add("E-getids", sp.String(), 1000, "none", submit(3, 4), retrieve("last").with(errOut(sp.Base, sp.Form)).probe(), retrieve("last"))
	}
	add("E-getids", "empty-result", 1000, "none", submit(3, 4), retrieve("last").with(Outcome{Kind: "empty"}).probe(), retrieve("last"))
	add("E-getids", "nil-result", 1000, "none", submit(3, 4), retrieve("last").with(Outcome{Kind: "nil"}).probe(), retrieve("last"))
	// (3) every error on a Get chunk (250 blobs at one height = 3 chunks of the helper)
	for _, sp := range getErrSpecs() {
		for _, chunk := range []int{0, 2} {
			add("E-get", fmt.Sprintf("%s@chunk%d", sp, chunk), 1000, "none",
				submit(smallSizes(rng, 250)...), retrieve("last").getFail(chunk, errOut(sp.Base, sp.Form)).probe(), retrieve("last"))
		}
	}
	// (4) cancellation and deadline: before the call, and while the call is blocked inside the DA layer
	block := Outcome{Kind: "block"}
	for _, mode := range []string{"cancel", "deadline", "precancel"} {
		add("E-ctx", "submit-blocked/"+mode, 1000, "none", submit(10, 20), submit(5, 6, 7).with(block).inCtx(mode).probe(), submit(9), retrieve("last"))
		add("E-ctx", "getids-blocked/"+mode, 1000, "none", submit(10, 20), retrieve("last").with(block).inCtx(mode).probe(), retrieve("last"))
		add("E-ctx", "get-blocked/"+mode, 1000, "none", submit(smallSizes(rng, 150)...), retrieve("last").getFail(1, block).inCtx(mode).probe(), retrieve("last"))
	}
	add("E-ctx", "submit-real/precancel", 1000, "none", submit(10, 20), submit(5, 6, 7).inCtx("precancel").probe(), submit(9), retrieve("last"))
	add("E-ctx", "retrieve-real/precancel", 1000, "none", submit(10, 20), retrieve("last").inCtx("precancel").probe(), retrieve("last"))
	// (6) the interface methods that have no node-side helper: values and failure come back as for a direct call
	some := []ErrSpec{{"generic", "plain"}, {"ErrBlobNotFound", "wrap"}, {"ErrTxTimedOut", "plain"}, {"ErrContextCanceled", "prewrap"}}
	for _, back := range []string{"none", "same", "half"} {
		add("E-method", "Submit/"+back, 100, back, submit(10, 20), call("Submit", "", "", 30, 40).probe(), retrieve("last"), call("Submit", "", "", 60, 60), retrieve("last"),
			call("Submit", "", "", 101, 1), call("Submit", "", ""), call("Submit", "", "", 0, 0), retrieve("last"))
	}
	for _, sp := range some {
		add("E-method", "Submit/"+sp.String(), 1000, "none", submit(10, 20), call("Submit", "", "", 5, 6).with(errOut(sp.Base, sp.Form)).probe(), call("Submit", "", "", 7), retrieve("last"))
	}
	add("E-method", "Submit/partial", 1000, "none", submit(10, 20), call("Submit", "", "", 5, 6, 7).with(Outcome{Kind: "prefix", Prefix: 2}).probe(), retrieve("last"))
	for _, sel := range []string{"last", "last+unknown", "unknown", "none"} {
		add("E-method", "GetProofs/"+sel, 1000, "none", submit(3, 4, 5), call("GetProofs", sel, "").probe(), retrieve("last"))
		for _, ps := range []string{"", "/swap", "/corrupt", "/short"} {
			add("E-method", "Validate/"+sel+ps, 1000, "none", submit(3, 4, 5, 6, 7), call("Validate", sel, ps).probe(), retrieve("last"))
		}
	}
	add("E-method", "GetProofs/many", 1000, "none", submit(smallSizes(rng, 300)...), call("GetProofs", "last", "").probe(), call("Validate", "last", "/corrupt"), call("Validate", "last", ""))
	for _, sizes := range [][]int{{}, {0}, {1, 2, 3}, {1500, 0, 1}, smallSizes(rng, 300)} {
		add("E-method", fmt.Sprintf("Commit/%d", len(sizes)), 1000, "none", submit(3), call("Commit", "", "", sizes...).probe())
	}
	for _, m := range []string{"GetProofs", "Validate", "Commit", "GasPrice", "GasMultiplier"} {
		for _, sp := range some {
			add("E-method", m+"/"+sp.String(), 1000, "none", submit(3, 4), call(m, "last", "", 1, 2).with(errOut(sp.Base, sp.Form)).probe(), call(m, "last", "", 1, 2))
		}
	}
	for k := 0; k < 4; k++ {
		add("E-method", fmt.Sprintf("Gas/%d", k), 1000, "none", call("GasPrice", "", "").probe(), call("GasMultiplier", "", ""), submit(3), call("GasMultiplier", "", ""), call("GasPrice", "", ""))
	}
	// (5) heights: with blobs, without, from the future (near, far, beyond 2^53, the largest), zero
	for _, sel := range []string{"last", "gap", "zero", "cur", "future", "future-far", "future-2p53", "future-max"} {
		add("E-height", sel, 1000, "none", submit(3, 4), Op{Kind: "advance", By: 3}, submit(5), retrieve(sel).probe(), retrieve("last"))
	}
	return cases
}

// sizeShapes returns the blob-size lists around a limit L.
func sizeShapes(rng *rand.Rand, L int) map[string][]int {
	sh := map[string][]int{
		"empty":          {},
		"one-zero":       {0},
		"zeros":          {0, 0, 0},
		"single=L-1":     {L - 1},
		"single=L":       {L},
		"single=L+1":     {L + 1},
		"L,L,L":          {L, L, L},
		"L,1":            {L, 1},
		"1,L":            {1, L},
		"L,0,1":          {L, 0, 1},
		"0,L,0,0":        {0, L, 0, 0},
		"over-after-cut": {L/2 + 1, L/2 + 1, L + 1},
		"2L":             {2 * L},
	}
	for _, m := range []int{2, 3, 5} {
		sh[fmt.Sprintf("sum=L-1/%d", m)] = split(rng, L-1, m)
		sh[fmt.Sprintf("sum=L/%d", m)] = split(rng, L, m)
		sh[fmt.Sprintf("sum=L+1/%d", m)] = split(rng, L+1, m)
	}
	sh["sum=L+zero"] = append(split(rng, L, 2), 0)
	// a single oversize blob at each position among blobs that would all fit
	small := 0
	if L >= 8 {
		small = L / 8
	}
	for p := 0; p < 4; p++ {
		s := []int{small, small, small, small}
		s[p] = L + 1
		sh[fmt.Sprintf("oversize@%d", p)] = s
	}
	if L <= 1000 {
		ones := make([]int, L+1)
		for i := range ones {
			ones[i] = 1
		}
		sh["ones=L"] = ones[:L]
		sh["ones=L+1"] = ones
	}
	return sh
}

func sortedKeys(m map[string][]int) []string {
	ks := make([]string, 0, len(m))
	for k := range m {
		ks = append(ks, k)
	}
	// insertion sort (no extra import)
	for i := 1; i < len(ks); i++ {
		for j := i; j > 0 && ks[j] < ks[j-1]; j-- {
			ks[j], ks[j-1] = ks[j-1], ks[j]
		}
	}
	return ks
}

// genSizes builds the size-limit cases. defaultLimit is the limit NewClient chooses.
func genSizes(rng *rand.Rand, defaultLimit uint64, quick bool) []Case {
	var cases []Case
	add := func(name string, lim uint64, back string, ops ...Op) {
		cfg := cfgVariants[len(cases)%len(cfgVariants)]
		cases = append(cases, Case{Part: "S-size", Name: name, Cfg: cfg, ClientLimit: lim, BackLimit: back, Seed: rng.Int63(), Ops: ops})
	}
	for _, L := range []int{1, 7, 100, 1000} {
		shapes := sizeShapes(rng, L)
		for _, back := range []string{"same", "none", "half"} {
			for _, name := range sortedKeys(shapes) {
				sizes := shapes[name]
				nm := fmt.Sprintf("L=%d/%s/%s", L, back, name)
				add(nm, uint64(L), back, submit(sizes...).probe(), retrieve("cur"), submit(1), retrieve("last"))
			}
			// the DA layer itself takes only part of what it was sent / fails: the count must follow
			add(fmt.Sprintf("L=%d/%s/partial", L, back), uint64(L), back,
				submit(splitFit(rng, L+1, 4, L)...).with(Outcome{Kind: "prefix", Prefix: 1}).probe(), retrieve("cur"), submit(1), retrieve("last"))
			add(fmt.Sprintf("L=%d/%s/partial0", L, back), uint64(L), back,
				submit(splitFit(rng, L+1, 4, L)...).with(Outcome{Kind: "prefix", Prefix: 0}).probe(), retrieve("cur"), submit(1), retrieve("last"))
			add(fmt.Sprintf("L=%d/%s/fails", L, back), uint64(L), back,
				submit(splitFit(rng, L+1, 4, L)...).with(errOut("generic", "plain")).probe(), retrieve("cur"), submit(1), retrieve("last"))
		}
	}
	// the limit NewClient chooses (about 2 MB)
	D := int(defaultLimit)
	big := map[string][]int{
		"single=D-1":     {D - 1},
		"single=D":       {D},
		"single=D+1":     {D + 1},
		"sum=D/2":        {D / 2, D - D/2},
		"sum=D+1/2":      {D / 2, D - D/2 + 1},
		"oversize@1":     {10, D + 1, 10},
		"over-after-cut": {D/2 + 1, D/2 + 1, D + 1},
		"D,1":            {D, 1},
	}
	for _, back := range []string{"same", "none"} {
		for _, name := range sortedKeys(big) {
			if quick && back == "none" && !strings.HasPrefix(name, "single") {
				continue
			}
			add(fmt.Sprintf("L=default/%s/%s", back, name), 0, back, submit(big[name]...).probe(), retrieve("cur"))
		}
	}
	// 1000 small blobs
	for _, lim := range []uint64{100, 1000, 0} {
		for _, back := range []string{"same", "none"} {
			add(fmt.Sprintf("L=%d/%s/1000-small", lim, back), lim, back, submit(smallSizes(rng, 1000)...).probe(), retrieve("last"), submit(1), retrieve("last"))
		}
	}
	return cases
}

// genRandom builds random call sequences. withTriggers says whether errors from the trigger regions of
// the known findings may be drawn.
func genRandom(rng *rand.Rand, n int, withTriggers bool) []Case {
	all := submitErrSpecs()
	var clean, trig []ErrSpec
	for _, sp := range all {
		if sp.Form == "sametext" {
			continue
		}
		if specTrigger(sp) != "" {
			trig = append(trig, sp)
		} else {
			clean = append(clean, sp)
		}
	}
	gids := getIDsErrSpecs()
	gets := getErrSpecs()
	var cases []Case
	for c := 0; c < n; c++ {
		limits := []uint64{7, 64, 100, 1000}
		L := limits[rng.Intn(len(limits))]
		back := []string{"same", "none", "half"}[rng.Intn(3)]
		cs := Case{Part: "R-clean", Cfg: cfgVariants[rng.Intn(len(cfgVariants))], ClientLimit: L, BackLimit: back, Seed: rng.Int63()}
		if withTriggers {
			cs.Part = "R-trigger"
		}
		cs.Name = fmt.Sprintf("seq%d", c)
		nops := 6 + rng.Intn(12)
		for i := 0; i < nops; i++ {
			p := rng.Intn(100)
			switch {
			case p < 50: // submit
				var sizes []int
				switch rng.Intn(8) {
				case 0:
					sizes = []int{}
				case 1:
					sizes = split(rng, int(L)+rng.Intn(3)-1, 1+rng.Intn(4))
				case 2:
					sizes = split(rng, int(L)*2, 2+rng.Intn(4))
				case 3:
					sizes = smallSizes(rng, 1+rng.Intn(6))
					sizes[rng.Intn(len(sizes))] = int(L) + 1 + rng.Intn(3)
				default:
					sizes = make([]int, 1+rng.Intn(6))
					for j := range sizes {
						sizes[j] = rng.Intn(int(L)/3 + 2)
					}
				}
				op := submit(sizes...)
				op.Gas = []float64{0, 0.002, 1.5, -1}[rng.Intn(4)]
				// Two causes of failure in one call (a blob the client must refuse AND a failing DA layer or
				// a dead context) have no order of precedence in the statement: not generated.
				_, refused := refPrefix(sizes, L)
				if len(sizes) > 0 && !refused {
					q := rng.Intn(100)
					switch {
					case q < 55:
					case q < 65:
						op.Out = Outcome{Kind: "prefix", Prefix: rng.Intn(len(sizes) + 1)}
					case q < 90:
						if withTriggers && rng.Intn(2) == 0 {
							sp := trig[rng.Intn(len(trig))]
							op.Out = errOut(sp.Base, sp.Form)
						} else {
							sp := clean[rng.Intn(len(clean))]
							op.Out = errOut(sp.Base, sp.Form)
						}
					case q < 96:
						// a blocked call needs a list the client lets through
						op.Sizes = []int{1}
						op.Out = Outcome{Kind: "block"}
						op.Ctx = []string{"cancel", "deadline"}[rng.Intn(2)]
					default:
						op.Out = Outcome{Kind: "block"}
						op.Ctx = "precancel"
					}
				}
				cs.Ops = append(cs.Ops, op)
			case p < 90: // retrieve
				sels := []string{"last", "last", "last", "cur", "gap", "zero", "future", "future-far", "future-max"}
				op := retrieve(sels[rng.Intn(len(sels))])
				q := rng.Intn(100)
				switch {
				case q < 65:
				case q < 82:
					sp := gids[rng.Intn(len(gids))]
					op.Out = errOut(sp.Base, sp.Form)
				case q < 86:
					op.Out = Outcome{Kind: []string{"empty", "nil"}[rng.Intn(2)]}
				case q < 94:
					sp := gets[rng.Intn(len(gets))]
					op = op.getFail(0, errOut(sp.Base, sp.Form))
				case q < 97:
					op.Out = Outcome{Kind: "block"}
					op.Ctx = []string{"cancel", "deadline"}[rng.Intn(2)]
				default:
					op.Ctx = "precancel"
				}
				cs.Ops = append(cs.Ops, op)
			case p < 96: // one of the other interface methods
				var op Op
				sel := []string{"last", "last", "last+unknown", "none"}[rng.Intn(4)]
				switch rng.Intn(6) {
				case 0:
					sizes := make([]int, rng.Intn(4))
					for j := range sizes {
						sizes[j] = rng.Intn(int(L) + 2)
					}
					op = call("Submit", "", "", sizes...)
					op.Gas = []float64{0, 0.002, 1.5, -1}[rng.Intn(4)]
					if q := rng.Intn(10); q == 0 {
						sp := clean[rng.Intn(len(clean))]
						op.Out = errOut(sp.Base, sp.Form)
					} else if q == 1 && len(sizes) > 0 {
						op.Out = Outcome{Kind: "prefix", Prefix: rng.Intn(len(sizes))}
					}
				case 1:
					op = call("GetProofs", sel, "")
				case 2:
					op = call("Validate", sel, []string{"", "", "/swap", "/corrupt", "/short"}[rng.Intn(5)])
				case 3:
					op = call("Commit", "", "", smallSizes(rng, rng.Intn(5))...)
				case 4:
					op = call("GasPrice", "", "")
				default:
					op = call("GasMultiplier", "", "")
				}
				if op.Method != "Submit" && rng.Intn(8) == 0 {
					sp := gets[rng.Intn(len(gets))]
					op.Out = errOut(sp.Base, sp.Form)
				}
				cs.Ops = append(cs.Ops, op)
			default:
				cs.Ops = append(cs.Ops, Op{Kind: "advance", By: uint64(1 + rng.Intn(3))})
			}
		}
		cs.Ops = append(cs.Ops, submit(1), retrieve("last"))
		cases = append(cases, cs)
	}
	return cases
}
