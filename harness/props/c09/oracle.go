package c09

import (
	"context"
	"encoding/binary"
	"fmt"
	"strings"
	"sync"
	"time"

	coreda "github.com/evstack/ev-node/core/da"

	"verifharness/world"
)

// rec is one retrieval call as seen at the DA boundary, with the scan cursor sampled when the call arrived.
type rec struct {
	Kind    string // getids | get
	H       uint64 // getids: requested height; get: height the requested ids belong to
	Outcome string // getids: ok | emptylist | nilresult | notfound | future | listerr; get: ok | chunkerr
	IDs     []string
	Cursor  uint64
	HasCur  bool
}

func (c rec) String() string {
	s := fmt.Sprintf("%s h=%d %s n=%d", c.Kind, c.H, c.Outcome, len(c.IDs))
	if c.HasCur {
		s += fmt.Sprintf(" cursor=%d", c.Cursor)
	}
	return s
}

// spy sits between the node and the DA double: it records what the scan asked for and what it was told, and
// reads the scan cursor at every call.
type spy struct {
	*world.DADouble
	mu     sync.Mutex
	recs   []rec
	cursor func() uint64
	// hangKind "listing" / "chunk0": the first listing / first chunk fetch for hangAt is left unanswered until
	// the caller's context ends or hangCap passed; it then fails and everything after it is answered normally
	hangKind    string
	hangAt      uint64
	hangCap     time.Duration
	hangStarted bool
	hangEndedBy string // "caller" | "da-client-timeout"
	hangTook    time.Duration
}

// hang leaves the call unanswered if it is the one to be left unanswered; it returns the error the call ends with.
func (s *spy) hang(ctx context.Context, kind string, h uint64) error {
	s.mu.Lock()
	if s.hangKind != kind || s.hangAt != h || s.hangStarted {
		s.mu.Unlock()
		return nil
	}
	s.hangStarted = true
	s.mu.Unlock()
	t0 := time.Now()
	var err error
	by := "caller"
	tm := time.NewTimer(s.hangCap)
	defer tm.Stop()
	select {
	case <-ctx.Done():
		err = ctx.Err()
	case <-tm.C:
		by = "da-client-timeout"
		err = world.RetrieveErr(1, "no answer")
	}
	s.mu.Lock()
	s.hangEndedBy, s.hangTook = by, time.Since(t0)
	s.mu.Unlock()
	return err
}

func (s *spy) hangInfo() (bool, string, time.Duration) {
	s.mu.Lock()
	defer s.mu.Unlock()
	return s.hangStarted, s.hangEndedBy, s.hangTook
}

func (s *spy) sample() (uint64, bool) {
	s.mu.Lock()
	f := s.cursor
	s.mu.Unlock()
	if f == nil {
		return 0, false
	}
	return f(), true
}

func (s *spy) setCursor(f func() uint64) {
	s.mu.Lock()
	s.cursor = f
	s.mu.Unlock()
}

func (s *spy) add(r rec) {
	s.mu.Lock()
	s.recs = append(s.recs, r)
	s.mu.Unlock()
}

func (s *spy) n() int {
	s.mu.Lock()
	defer s.mu.Unlock()
	return len(s.recs)
}

func (s *spy) log() []rec {
	s.mu.Lock()
	defer s.mu.Unlock()
	return append([]rec(nil), s.recs...)
}

func (s *spy) GetIDs(ctx context.Context, height uint64, ns []byte) (*coreda.GetIDsResult, error) {
	cur, ok := s.sample()
	if herr := s.hang(ctx, "listing", height); herr != nil {
		s.add(rec{Kind: "getids", H: height, Cursor: cur, HasCur: ok, Outcome: "listerr"})
		return nil, herr
	}
	res, err := s.DADouble.GetIDs(ctx, height, ns)
	r := rec{Kind: "getids", H: height, Cursor: cur, HasCur: ok}
	switch {
	case err != nil && strings.Contains(err.Error(), coreda.ErrBlobNotFound.Error()):
		r.Outcome = "notfound"
	case err != nil && strings.Contains(err.Error(), coreda.ErrHeightFromFuture.Error()):
		r.Outcome = "future"
	case err != nil:
		r.Outcome = "listerr"
	case res == nil:
		r.Outcome = "nilresult"
	case len(res.IDs) == 0:
		r.Outcome = "emptylist"
	default:
		r.Outcome = "ok"
		for _, id := range res.IDs {
			r.IDs = append(r.IDs, string(id))
		}
	}
	s.add(r)
	return res, err
}

func (s *spy) Get(ctx context.Context, ids []coreda.ID, ns []byte) ([]coreda.Blob, error) {
	cur, ok := s.sample()
	r := rec{Kind: "get", Cursor: cur, HasCur: ok, Outcome: "ok"}
	if len(ids) > 0 && len(ids[0]) >= 8 {
		r.H = binary.LittleEndian.Uint64(ids[0])
	}
	for _, id := range ids {
		r.IDs = append(r.IDs, string(id))
	}
	if herr := s.hang(ctx, "chunk0", r.H); herr != nil {
		r.Outcome = "chunkerr"
		s.add(r)
		return nil, herr
	}
	blobs, err := s.DADouble.Get(ctx, ids, ns)
	if err != nil || len(blobs) != len(ids) {
		r.Outcome = "chunkerr"
	}
	s.add(r)
	return blobs, err
}

// hstate is what the call log says about one DA height.
type hstate struct {
	asked       bool
	listed      bool // some listing answered with ids
	none        bool // some listing answered "holds nothing"
	ids         map[string]bool
	fetched     map[string]bool
	lastAnswer  string
	pendingFail bool // the last answer was a failure and the height was not asked for since
	done        bool
	// one pass = a listing and the fetches that follow it until the height is listed again. What a node OWES (handing
	// the genuine blobs to sync) is judged per pass: a pass in which any fetch failed may be thrown away as a whole -
	// also by a node that fetches its chunks side by side, where the calls after the failing one still succeed.
	passIDs     map[string]bool
	passFetched map[string]bool
	passFailed  bool
}

// passComplete: the latest listing's ids were all returned by successful fetches of the same pass, none of which failed.
func (h *hstate) passComplete() bool {
	if h == nil || !h.listed || h.passFailed || h.passIDs == nil {
		return false
	}
	for id := range h.passIDs {
		if !h.passFetched[id] {
			return false
		}
	}
	return true
}

// complete: the height was confirmed to hold none, or it was listed and every listed id was returned by a
// successful fetch.
func (h *hstate) complete() bool {
	if h == nil {
		return false
	}
	return h.none || h.allFetched()
}

// allFetched: the height was listed and every listed id was returned by a successful fetch.
func (h *hstate) allFetched() bool {
	if h == nil || !h.listed {
		return false
	}
	for id := range h.ids {
		if !h.fetched[id] {
			return false
		}
	}
	return true
}

func (h *hstate) nFetched() int {
	n := 0
	for id := range h.ids {
		if h.fetched[id] {
			n++
		}
	}
	return n
}

type finding struct {
	clause string
	text   string
}

type verdict struct {
	findings []finding
	// statistics for the evidence
	cursorChecks  int
	failures      int
	retries       int
	noneByListing int // heights confirmed empty by a listing that succeeded with zero ids / a nil result
	fetchedOK     map[uint64]bool
	multiChunk    int // heights completed through more than one chunk fetch
}

func (v *verdict) add(clause, format string, a ...any) {
	if len(v.findings) < 6 {
		v.findings = append(v.findings, finding{clause, fmt.Sprintf(format, a...)})
	}
}

// judge applies the statement to a call log.
//
//	start rule:    the first listing is for the configured start height
//	advance rule:  whenever the cursor (sampled at every DA call and at the end) stands above a height g >= first,
//	               g is complete
//	retry rule:    a height that answered with a failure / "from the future" while incomplete is asked for again
//	               before any higher height is completed
//	end rule:      (only when the scan reported idle beyond `last`) every height in [first, last] is complete
//
// Nothing is said about how many listings or fetches are made, about their order beyond that, about prefetching
// higher heights, re-listing a finished height or re-fetching only a failed chunk.
func judge(start, last uint64, recs []rec, finalCursor uint64, haveFinal, idle bool) *verdict {
	v := &verdict{fetchedOK: map[uint64]bool{}}
	first := start
	if first == 0 {
		first = 1
	}
	hs := map[uint64]*hstate{}
	get := func(h uint64) *hstate {
		if hs[h] == nil {
			hs[h] = &hstate{ids: map[string]bool{}, fetched: map[string]bool{}}
		}
		return hs[h]
	}
	describe := func(g uint64) (string, string) {
		st := hs[g]
		switch {
		case st == nil || !st.asked:
			return "advance-rule", fmt.Sprintf("DA height %d was never asked for", g)
		case st.listed && (st.lastAnswer == "ok" || st.lastAnswer == "get-ok"):
			return "advance-rule", fmt.Sprintf("only %d of the %d ids listed at DA height %d were fetched", st.nFetched(), len(st.ids), g)
		default:
			return "retry-same-height", fmt.Sprintf("the last answer for DA height %d was %q and it was not fetched again", g, st.lastAnswer)
		}
	}
	reported := map[uint64]bool{}
	checkCursor := func(cur uint64, when string) {
		if cur <= first {
			return
		}
		v.cursorChecks++
		if cur-first > 100000 {
			v.add("advance-rule", "%s the scan cursor stood at %d, far beyond the DA head %d", when, cur, last)
			return
		}
		for g := first; g < cur; g++ {
			if hs[g].complete() || reported[g] {
				continue
			}
			reported[g] = true
			cl, why := describe(g)
			if g > last {
				cl, why = "retry-same-height", fmt.Sprintf("DA height %d is not produced yet (the DA head is %d)", g, last)
			}
			v.add(cl, "%s the scan cursor stood at %d, i.e. past DA height %d, but %s", when, cur, g, why)
		}
	}
	firstListing := true
	for i, c := range recs {
		if c.HasCur {
			checkCursor(c.Cursor, fmt.Sprintf("at DA call #%d (%s)", i, c.String()))
		}
		if c.Kind == "getids" && firstListing {
			firstListing = false
			if c.H != start && !(start == 0 && c.H == 1) {
				v.add("starts-at-configured-height", "the scan started at DA height %d, the configured start is %d", c.H, start)
			}
		}
		st := get(c.H)
		if st.pendingFail {
			v.retries++
			st.pendingFail = false
		}
		st.asked = true
		was := st.complete()
		switch c.Kind {
		case "getids":
			st.lastAnswer = c.Outcome
			switch c.Outcome {
			case "ok":
				st.listed = true
				st.passIDs, st.passFetched, st.passFailed = map[string]bool{}, map[string]bool{}, false
				for _, id := range c.IDs {
					st.ids[id] = true
					st.passIDs[id] = true
				}
			case "notfound":
				st.none = true
			case "emptylist", "nilresult":
				if !st.none {
					v.noneByListing++
				}
				st.none = true
			default:
				if !was {
					st.pendingFail = true
					v.failures++
				}
			}
		case "get":
			if c.Outcome == "ok" {
				st.lastAnswer = "get-ok"
				for _, id := range c.IDs {
					st.fetched[id] = true
					if st.passFetched != nil {
						st.passFetched[id] = true
					}
				}
			} else {
				st.lastAnswer = "chunkerr"
				st.passFailed = true
				if !was {
					st.pendingFail = true
					v.failures++
				}
			}
		}
		if !was && st.complete() && !st.done {
			st.done = true
			if st.allFetched() && len(st.ids) > 100 {
				v.multiChunk++
			}
			for g, o := range hs {
				if g >= first && g < c.H && o.pendingFail && !o.complete() && !reported[g] {
					reported[g] = true
					v.add("retry-same-height", "DA height %d answered %q; before it was asked for again the scan finished the higher height %d (DA call #%d)", g, o.lastAnswer, c.H, i)
				}
			}
		}
		if st.passComplete() {
			v.fetchedOK[c.H] = true
		}
	}
	if firstListing {
		v.add("advance-rule", "the scan never asked the DA layer for anything")
	}
	if haveFinal {
		checkCursor(finalCursor, "at the end")
	}
	if idle {
		for g := first; g <= last; g++ {
			if hs[g].complete() || reported[g] {
				continue
			}
			reported[g] = true
			cl, why := describe(g)
			v.add(cl, "the scan went idle beyond the DA head %d, but %s", last, why)
		}
	}
	return v
}
