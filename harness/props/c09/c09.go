// Package c09 decides C09: DA scanning never skips a height, retries on failure, survives any blob.
package c09

import (
	"bytes"
	"context"
	"encoding/json"
	"fmt"
	"math/rand"
	"os"
	"strings"
	"time"

	"github.com/evstack/ev-node/types"
	pb "github.com/evstack/ev-node/types/pb/evnode/v1"
	"google.golang.org/protobuf/proto"

	"verifharness/vk"
	"verifharness/world"
)

// Level is the verification level claimed for this property.
const Level = "fault_enumeration"

func init() { vk.Children["c09"] = child }

// Case is one scan scenario.
type Case struct {
	ID       int                 `json:"id"`
	Start    uint64              `json:"start_height"`
	Heights  int                 `json:"da_heights"`
	Outcomes map[uint64][]string `json:"scripted_outcomes"` // per DA height, consumed before the real contents are served
	Layout   []string            `json:"layout"`            // per DA height: what it holds
	BigAt    uint64              `json:"many_ids_height"`
	// BigN > 0: the many-ids height holds exactly BigN ids, junk first, genuine blobs (placed nowhere else) only in
	// the last fetch chunk. BigN == 0: 230-250 ids, genuine and junk mixed.
	BigN int `json:"many_ids_exact,omitempty"`
	// EmptyAs: how produced heights without blobs answer a listing: "" (ErrBlobNotFound), "emptylist", "nilresult",
	// "mixed" (per height one of the three).
	EmptyAs string `json:"empty_height_answer,omitempty"`
	Seed    int64  `json:"seed"`
	// Metrics: "" = the node counts into no-op metrics, "prometheus" = into real Prometheus collectors, built the way
	// node/ builds them when instrumentation is switched on.
	Metrics string `json:"metrics,omitempty"`
	// Hang != "": the DA layer leaves the first listing ("listing") or the first chunk fetch ("chunk0") of height
	// HangAt unanswered until the caller gives up (or hangCap passed), then answers normally. All genuine blobs of
	// the case sit at HangAt.
	Hang   string `json:"unanswered_call,omitempty"`
	HangAt uint64 `json:"unanswered_call_height,omitempty"`
}

func (c Case) key() string {
	b, _ := json.Marshal(c.Outcomes)
	return fmt.Sprintf("s%d n%d big%d/%d e%s m%s hang%s@%d %s %s", c.Start, c.Heights, c.BigAt, c.BigN, c.EmptyAs, c.Metrics, c.Hang, c.HangAt, b, strings.Join(c.Layout, "|"))
}

var errKinds = []string{"notfound", "future", "listerr", "chunkerr0", "chunkerr1", "chunkerr2"}

// enumerate all outcome sequences up to length n over errKinds
func sequences(n int) [][]string {
	var out [][]string
	var rec func(p []string, k int)
	rec = func(p []string, k int) {
		out = append(out, append([]string{}, p...))
		if k == 0 {
			return
		}
		for _, e := range errKinds {
			rec(append(p, e), k-1)
		}
	}
	rec(nil, n)
	return out
}

func junkCorpus(rng *rand.Rand, p *world.Produced, n int) [][]byte {
	var out [][]byte
	src := func() []byte {
		i := rng.Intn(len(p.Heights))
		if p.DataBlob[i] != nil && rng.Intn(2) == 0 {
			return p.DataBlob[i]
		}
		return p.HeaderBlob[i]
	}
	st := types.State{ChainID: "x", InitialHeight: 1, LastBlockHeight: 5}
	for len(out) < n {
		switch rng.Intn(12) {
		case 11:
			out = append(out, world.StructuredJunk(rng, p)...)
		case 0: // truncation: every length class
			s := src()
			cuts := []int{0, 1, 2, len(s) / 2, len(s) - 1, rng.Intn(len(s))}
			out = append(out, append([]byte{}, s[:cuts[rng.Intn(len(cuts))]]...))
		case 1: // bit flip
			s := append([]byte{}, src()...)
			s[rng.Intn(len(s))] ^= 1 << uint(rng.Intn(8))
			out = append(out, s)
		case 2: // absurd varint length
			s := append([]byte{}, src()...)
			pos := 1 + rng.Intn(len(s)-1)
			s = append(append(append([]byte{}, s[:pos]...), 0xff, 0xff, 0xff, 0xff, 0x0f), s[pos:]...)
			out = append(out, s)
		case 3: // wrong message type
			if pb, err := st.ToProto(); err == nil {
				b, _ := json.Marshal(pb)
				out = append(out, b)
			}
			out = append(out, []byte{0x08, 0x96, 0x01})
		case 4:
			out = append(out, []byte{})
		case 5:
			b := make([]byte, 1+rng.Intn(400))
			rng.Read(b)
			out = append(out, b)
		case 6: // length prefix claiming more than there is
			out = append(out, []byte{0x0a, 0xff, 0xff, 0xff, 0xff, 0xff, 0xff, 0xff, 0xff, 0x7f, 0x01})
		case 7: // a header blob with the data blob appended
			out = append(out, append(append([]byte{}, p.HeaderBlob[0]...), src()...))
		case 9: // the proposer's address in both places, no public key, some signature bytes (raw protobuf)
			h := p.Header(rng.Intn(len(p.Heights)))
			sig := make([]byte, 64)
			rng.Read(sig)
			if b, err := proto.Marshal(&pb.SignedHeader{Header: h.Header.ToProto(), Signature: sig, Signer: &pb.Signer{Address: p.Keys.Addr}}); err == nil {
				out = append(out, b)
			}
			d := p.Data(rng.Intn(len(p.Heights)))
			if len(d.Txs) == 0 {
				d.Txs = types.Txs{types.Tx("junk")}
			}
			if b, err := proto.Marshal(&pb.SignedData{Data: d.ToProto(), Signature: sig, Signer: &pb.Signer{Address: p.Keys.Addr}}); err == nil {
				out = append(out, b)
			}
		case 10: // structurally valid protobuf with random subsets of fields present
			out = append(out, world.StructuredJunk(rng, p)...)
		case 8: // deeply nested / repeated tags
			b := bytes.Repeat([]byte{0x0a, 0x02}, 1+rng.Intn(50))
			out = append(out, b)
		}
	}
	return out
}

// genuineRef is what the producer knows about one genuine blob, by construction (no decoder involved).
type genuineRef struct {
	blob   []byte
	isData bool
	height uint64
	hash   string   // header: header hash as computed by the producer
	txs    [][]byte // data: the transactions of the block
}

func (g genuineRef) name() string {
	if g.isData {
		return fmt.Sprintf("signed data of block %d (%d bytes)", g.height, len(g.blob))
	}
	return fmt.Sprintf("header of block %d (%d bytes)", g.height, len(g.blob))
}

func genuineBlobs(p *world.Produced) []genuineRef {
	var out []genuineRef
	for i, h := range p.Heights {
		out = append(out, genuineRef{blob: p.HeaderBlob[i], height: h, hash: string(p.HeaderHash[i])})
		if p.DataBlob[i] != nil {
			out = append(out, genuineRef{blob: p.DataBlob[i], isData: true, height: h, txs: p.Txs[i]})
		}
	}
	return out
}

// event is what the scan handed to sync.
type event struct {
	data   bool
	height uint64
	hash   string
	txs    [][]byte
}

func (g genuineRef) matches(e event) bool {
	if g.isData != e.data || g.height != e.height {
		return false
	}
	if !g.isData {
		return g.hash == e.hash
	}
	if len(g.txs) != len(e.txs) {
		return false
	}
	for i := range g.txs {
		if !bytes.Equal(g.txs[i], e.txs[i]) {
			return false
		}
	}
	return true
}

// Limits of the driver. A stall is a violation only when it is logical: the scan took stallTicks ticks in a row
// without asking the DA layer for anything (and stallQuiet passed, which only makes the verdict rarer). Running
// out of caseBudget without that evidence is inconclusive.
var (
	stallTicks = 200
	stallQuiet = 3 * time.Second
	caseBudget = 90 * time.Second
	// doomedFetches: so many chunk fetches of the cursor's height made under a context that was already over (in a case
	// without an unanswered call, where an expired scan deadline could explain one pass of them) are a verdict
	doomedFetches = 12
	// hangCap: an unanswered DA call ends by itself (with a time-out error of the DA client) after this long, for
	// a scan that sets no deadline of its own
	hangCap = 40 * time.Second
)

func parseOutcome(o string) world.RetrieveOutcome {
	variant := 0
	if i := strings.IndexByte(o, ':'); i >= 0 {
		fmt.Sscanf(o[i+1:], "%d", &variant)
		o = o[:i]
	}
	switch {
	case o == "notfound":
		return world.RetrieveOutcome{Kind: []string{"notfound", "emptylist", "nilresult"}[variant%3]}
	case strings.HasPrefix(o, "chunkerr"):
		return world.RetrieveOutcome{Kind: "chunkerr", Chunk: int(o[len(o)-1] - '0'), ErrVariant: variant}
	}
	return world.RetrieveOutcome{Kind: o, ErrVariant: variant}
}

func runCase(r *vk.Run, p *world.Produced, c Case) {
	ctx, cancel := context.WithCancel(context.Background())
	defer cancel()
	rng := rand.New(rand.NewSource(c.Seed))
	da := world.NewDADouble()
	da.AutoAdvance = false
	sp := &spy{DADouble: da, hangKind: c.Hang, hangAt: c.HangAt, hangCap: hangCap}
	// layout
	last := c.Start + uint64(c.Heights)
	first := c.Start
	if first == 0 {
		first = 1
	}
	junk := junkCorpus(rng, p, 40+rng.Intn(60))
	genuine := genuineBlobs(p)
	isGenuine := map[string]bool{}
	for _, g := range genuine {
		isGenuine[string(g.blob)] = true
	}
	rng.Shuffle(len(genuine), func(a, b int) { genuine[a], genuine[b] = genuine[b], genuine[a] })
	// some heights stay empty, some hold junk only
	kindOf := map[uint64]string{} // "" = mixed, "empty", "junk"
	var usable []uint64
	for h := first; h <= last; h++ {
		switch x := rng.Intn(8); {
		case h == c.BigAt || (c.Hang != "" && h == c.HangAt):
		case x < 2:
			kindOf[h] = "empty"
		case x == 2:
			kindOf[h] = "junk"
		}
		if kindOf[h] == "" {
			usable = append(usable, h)
		}
	}
	if len(usable) == 0 {
		delete(kindOf, last)
		usable = append(usable, last)
	}
	if c.Hang != "" {
		usable = []uint64{c.HangAt}
	}
	perH := map[uint64][][]byte{}
	spread := genuine
	var tail []genuineRef
	if c.BigAt != 0 && c.BigN > 0 {
		room := c.BigN - ((c.BigN-1)/100)*100
		k := min(len(genuine), room, 1+rng.Intn(len(genuine)))
		tail, spread = genuine[:k], genuine[k:]
	}
	for _, g := range spread {
		h := usable[rng.Intn(len(usable))]
		perH[h] = append(perH[h], g.blob)
		if rng.Intn(5) == 0 { // the same genuine blob again at another height
			h2 := usable[rng.Intn(len(usable))]
			perH[h2] = append(perH[h2], g.blob)
		}
	}
	for _, j := range junk {
		h := first + uint64(rng.Intn(int(last-first+1)))
		if kindOf[h] == "empty" {
			continue
		}
		perH[h] = append(perH[h], j)
	}
	if c.BigAt != 0 && c.BigN == 0 {
		// up to 250 ids at one height: three chunks
		for len(perH[c.BigAt]) < 230+rng.Intn(21) {
			if rng.Intn(4) == 0 {
				perH[c.BigAt] = append(perH[c.BigAt], genuine[rng.Intn(len(genuine))].blob)
			} else {
				perH[c.BigAt] = append(perH[c.BigAt], junk[rng.Intn(len(junk))])
			}
		}
	}
	nBlobs, nJunk := 0, 0
	placedAt := map[string][]uint64{} // genuine blob -> DA heights
	for h := first; h <= last; h++ {
		blobs := perH[h]
		rng.Shuffle(len(blobs), func(a, b int) { blobs[a], blobs[b] = blobs[b], blobs[a] })
		if h == c.BigAt && c.BigN > 0 {
			// exactly BigN ids: junk, then the genuine blobs at the very end (last chunk only)
			var js [][]byte
			for _, b := range blobs {
				if !isGenuine[string(b)] {
					js = append(js, b)
				}
			}
			for len(js) < c.BigN-len(tail) {
				js = append(js, junk[rng.Intn(len(junk))])
			}
			blobs = append([][]byte{}, js[:c.BigN-len(tail)]...)
			for _, g := range tail {
				blobs = append(blobs, g.blob)
			}
		}
		ng := 0
		for _, b := range blobs {
			if isGenuine[string(b)] {
				ng++
				placedAt[string(b)] = append(placedAt[string(b)], h)
			} else {
				nJunk++
			}
		}
		nBlobs += len(blobs)
		c.Layout = append(c.Layout, fmt.Sprintf("%d:%d blobs (%d genuine)", h, len(blobs), ng))
		if len(blobs) > 0 {
			da.Place(h, blobs...)
		} else {
			as := c.EmptyAs
			if as == "mixed" {
				as = []string{"", "emptylist", "nilresult"}[rng.Intn(3)]
			}
			if as != "" {
				da.SetEmptyAs(h, as)
			}
		}
	}
	if c.Start == 0 && (c.EmptyAs == "emptylist" || c.EmptyAs == "nilresult") {
		da.SetEmptyAs(0, c.EmptyAs)
	}
	da.SetHeight(last)
	for h, seq := range c.Outcomes {
		for _, o := range seq {
			da.ScriptRetrieve(h, parseOutcome(o))
		}
	}
	r.Journal(c)
	// DABlockTime is short: the harness ticks the scan itself, but a scan that paces itself by the DA block time
	// must not be made to wait
	opts := world.NodeOpts{Aggregator: false, DABlockTime: 20 * time.Millisecond, BlockTime: time.Hour, DAStartHeight: c.Start}
	if c.Metrics == "prometheus" {
		opts.PrometheusNamespace = world.UniquePrometheusNamespace()
		r.Count("cases_with_prometheus_metrics", 1)
	}
	n, err := world.NewNode(ctx, opts,
		p.Keys, world.NewMemDS(world.NewImage()), world.NewExecDouble(), world.NewSeqDouble(), sp, nil)
	if err != nil {
		r.Violation("startup", err.Error(), c)
		return
	}
	sp.setCursor(n.M.VerifDAHeight)
	l := world.StartLoops(ctx, n, "retrieve")
	defer l.Stop()
	// collect events (the sync loop is not running: the harness is the consumer)
	var events []event
	drain := func() {
		for {
			select {
			case e := <-n.M.VerifHeaderInCh():
				if e.Header != nil {
					events = append(events, event{data: false, height: e.Header.Height(), hash: string(e.Header.Hash())})
				}
			case e := <-n.M.VerifDataInCh():
				if e.Data == nil {
					continue
				}
				ev := event{data: true}
				if e.Data.Metadata != nil {
					ev.height = e.Data.Metadata.Height
				}
				for _, tx := range e.Data.Txs {
					ev.txs = append(ev.txs, tx)
				}
				events = append(events, ev)
			default:
				return
			}
		}
	}
	// tick the scan until it was told "from the future" for the first height beyond the DA head
	began := time.Now()
	outcome := "idle"
	lastCalls, lastCallAt, ticksSince := -1, time.Now(), 0
	for {
		drain()
		if l.Exited("retrieve") {
			outcome = "exited"
			break
		}
		if da.FutureAnswers(last+1) > 0 {
			break
		}
		if nc := sp.n(); nc != lastCalls {
			lastCalls, lastCallAt, ticksSince = nc, time.Now(), 0
		}
		if n.M.VerifSignalLen("retrieve") == 0 && n.M.VerifSignal("retrieve") {
			ticksSince++ // the previous tick was taken
		}
		if ticksSince > stallTicks && time.Since(lastCallAt) > stallQuiet {
			outcome = "stall"
			break
		}
		if time.Since(began) > caseBudget {
			outcome = "budget"
			break
		}
		if c.Hang == "" && da.CtxDoneGets(n.M.VerifDAHeight()) >= doomedFetches {
			outcome = "doomed"
			break
		}
		time.Sleep(200 * time.Microsecond)
	}
	// a scan that works ahead may have asked for last+1 before it handed over what it found at last: let it
	// finish three more passes
	if outcome == "idle" {
		for k := 0; k < 3; k++ {
			f0 := da.FutureAnswers(last + 1)
			t0 := time.Now()
			for da.FutureAnswers(last+1) == f0 && time.Since(t0) < 2*time.Second && !l.Exited("retrieve") {
				if n.M.VerifSignalLen("retrieve") == 0 {
					n.M.VerifSignal("retrieve")
				}
				drain()
				time.Sleep(100 * time.Microsecond)
			}
			drain()
		}
	}
	recs := sp.log()
	wit := func() any {
		var calls []string
		for _, dc := range recs {
			calls = append(calls, dc.String())
		}
		if len(calls) > 120 {
			calls = append(append(calls[:60:60], "..."), calls[len(calls)-60:]...)
		}
		return map[string]any{"case": c, "da_calls": calls, "cursor_at_end": n.M.VerifDAHeight()}
	}
	v := judge(c.Start, last, recs, n.M.VerifDAHeight(), true, outcome == "idle")
	r.HitN("advance-rule", int64(v.cursorChecks))
	r.HitN("retry-same-height", int64(v.retries))
	r.HitN("holds-none-by-listing", int64(v.noneByListing))
	r.HitN("multi-chunk-height-fetched", int64(v.multiChunk))
	if len(recs) > 0 {
		r.Hit("starts-at-configured-height")
	}
	if len(v.findings) > 0 {
		var parts []string
		for _, f := range v.findings {
			parts = append(parts, f.text)
		}
		r.Violation(v.findings[0].clause, strings.Join(parts, " ;; "), wit())
	}
	switch outcome {
	case "exited":
		r.Violation("no-stall", "the DA scan loop terminated", wit())
		return
	case "stall":
		r.Violation("no-stall", fmt.Sprintf("the scan took %d ticks in a row (over %s) without asking the DA layer for anything and without having reached the DA head %d; cursor is at %d", ticksSince-1, time.Since(lastCallAt).Round(time.Millisecond), last, n.M.VerifDAHeight()), wit())
		return
	case "doomed":
		h := n.M.VerifDAHeight()
		r.Violation("retry-same-height", fmt.Sprintf("the scan stands at DA height %d and has asked %d times for a chunk of that height with a context that was already over when the call was made, while the node is running and no call of this case was left unanswered: the DA layer answers every call made under a live context, so what the node repeats is not a retry - the height (and everything behind it) can never be fetched", h, da.CtxDoneGets(h)), wit())
		return
	case "budget":
		r.Inconclusive(fmt.Sprintf("C09 case %d: the scan did not reach the DA head %d within %s (cursor %d, %d DA calls); no logical stall was seen", c.ID, last, caseBudget, n.M.VerifDAHeight(), len(recs)))
		r.FlushHits()
		return
	}
	// ---- events: every genuine blob at a completely fetched height was handed to sync
	type wanted struct {
		g  genuineRef
		at []uint64
	}
	var want []wanted
	for _, g := range genuine {
		var at []uint64
		for _, h := range placedAt[string(g.blob)] {
			if v.fetchedOK[h] {
				at = append(at, h)
			}
		}
		if len(at) > 0 {
			want = append(want, wanted{g, at})
		}
	}
	missing := func() []wanted {
		var out []wanted
		for _, w := range want {
			found := false
			for _, e := range events {
				if w.g.matches(e) {
					found = true
					break
				}
			}
			if !found {
				out = append(out, w)
			}
		}
		return out
	}
	miss := missing()
	for t0 := time.Now(); len(miss) > 0 && time.Since(t0) < 2*time.Second; miss = missing() {
		time.Sleep(5 * time.Millisecond)
		drain()
	}
	r.HitN("genuine-blob-delivered", int64(len(want)))
	if c.BigN > 0 && v.fetchedOK[c.BigAt] {
		r.HitN("genuine-in-last-chunk-delivered", int64(len(tail)))
	}
	if c.Hang != "" {
		// evidence that the call was really left unanswered until somebody gave up, and that the height was read
		// completely afterwards
		started, endedBy, took := sp.hangInfo()
		if started && endedBy != "" && v.fetchedOK[c.HangAt] && len(miss) == 0 {
			r.Hit("unanswered-call-height-read-afterwards")
			r.Count("unanswered_call_ended_by_"+endedBy, 1)
			r.Count("unanswered_call_ms", took.Milliseconds())
		}
	}
	if len(miss) > 0 {
		var parts []string
		for i, w := range miss {
			if i == 4 {
				parts = append(parts, fmt.Sprintf("... %d more", len(miss)-4))
				break
			}
			parts = append(parts, fmt.Sprintf("the genuine %s, fetched with DA height(s) %v, was not handed to sync", w.g.name(), w.at))
		}
		r.Violation("genuine-blob-delivered", strings.Join(parts, " ;; "), wit())
	}
	// what else was handed over is not judged here (sync re-validates: C03); it is counted
	other := 0
	for _, e := range events {
		m := false
		for _, g := range genuine {
			if g.matches(e) {
				m = true
				break
			}
		}
		if !m {
			other++
		}
	}
	nErr := 0
	for _, seq := range c.Outcomes {
		nErr += len(seq)
	}
	r.Count("da_calls", int64(len(recs)))
	r.Count("failed_answers_while_incomplete", int64(v.failures))
	r.Count("blobs_scanned", int64(nBlobs))
	r.Count("junk_blobs", int64(nJunk))
	r.Count("events_emitted", int64(len(events)))
	r.Count("events_not_matching_a_genuine_blob", int64(other))
	r.Eval(c.key(), nJunk > 0 && (nErr > 0 || c.Hang != ""), map[string]any{"start": c.Start, "outcomes": c.Outcomes, "layout": c.Layout, "empty_as": c.EmptyAs, "big": fmt.Sprintf("%d/%d", c.BigAt, c.BigN), "metrics": c.Metrics, "unanswered_call": fmt.Sprintf("%s@%d", c.Hang, c.HangAt)})
	r.FlushHits()
}

// BigNs are the id counts of the dedicated multi-chunk cases: around the chunk size of the fetch.
var BigNs = []int{100, 101, 199, 200, 201, 250}

func buildCases(r *vk.Run) []Case {
	rng := r.Rand("cases")
	maxLen := r.N(3, 4)
	seqs := sequences(maxLen)
	r.Set("outcome_sequences_enumerated", len(seqs))
	var cases []Case
	starts := []uint64{0, 1, 17}
	reps := r.N(3, 6)
	var all [][]string
	for k := 0; k < reps; k++ {
		all = append(all, seqs...)
	}
	// the scan retries a failing height up to ten times inside one pass before it gives the pass up:
	// runs of 10-13 consecutive failures reach the pass-level error path (the height must then be
	// examined again on the next tick, not skipped)
	for k := 0; k < r.N(8, 40); k++ {
		n := 10 + rng.Intn(4)
		var long []string
		for j := 0; j < n; j++ {
			switch k % 4 {
			case 0:
				long = append(long, "listerr")
			case 1:
				long = append(long, "chunkerr0")
			case 2:
				long = append(long, []string{"listerr", "chunkerr0", "chunkerr1"}[rng.Intn(3)])
			default:
				long = append(long, []string{"listerr", "chunkerr0"}[j%2])
			}
		}
		all = append(all, long)
	}
	// every failing outcome gets one of the error identities a DA client can surface (generic, deadline
	// exceeded plain / wrapped, the DA interface's sentinels, an RPC transport error; for a chunk fetch also
	// "not found" / "from the future": a listed id that cannot be fetched yet); "nothing here" is said in one
	// of three ways (ErrBlobNotFound, empty id list, nil result)
	withIdentity := func(seq []string) []string {
		out := make([]string, len(seq))
		for k, o := range seq {
			switch {
			case o == "listerr":
				o = fmt.Sprintf("%s:%d", o, rng.Intn(world.RetrieveErrVariants))
			case strings.HasPrefix(o, "chunkerr"):
				o = fmt.Sprintf("%s:%d", o, rng.Intn(world.RetrieveErrVariantsAll))
			case o == "notfound":
				o = fmt.Sprintf("%s:%d", o, rng.Intn(3))
			}
			out[k] = o
		}
		return out
	}
	emptyModes := []string{"", "emptylist", "nilresult", "mixed"}
	for i, s := range all {
		c := Case{ID: i, Start: starts[i%3], Heights: 4 + rng.Intn(5), Outcomes: map[uint64][]string{}, Seed: rng.Int63()}
		c.EmptyAs = emptyModes[rng.Intn(len(emptyModes))]
		first := c.Start
		if first == 0 {
			first = 1
		}
		// the enumerated sequence goes to one height; a second height gets another short one
		h1 := first + uint64(rng.Intn(c.Heights))
		s = withIdentity(s)
		c.Outcomes[h1] = s
		if i%4 == 0 {
			h2 := first + uint64(rng.Intn(c.Heights))
			if h2 != h1 {
				c.Outcomes[h2] = withIdentity(seqs[rng.Intn(len(seqs))])
				if len(c.Outcomes[h2]) > 2 {
					c.Outcomes[h2] = c.Outcomes[h2][:2]
				}
			}
		}
		if i%5 == 0 {
			c.BigAt = h1
		}
		cases = append(cases, c)
	}
	// multi-chunk completeness: exactly 100, 101, 199, 200, 201, 250 ids, genuine blobs in the last chunk only;
	// fault-free, with a failure of the last chunk (also with a not-found / from-the-future identity), with a
	// listing error
	lastChunk := func(n int) int { return (n - 1) / 100 }
	for k := 0; k < r.N(1, 4); k++ {
		for _, bn := range BigNs {
			scripts := [][]string{
				nil,
				{fmt.Sprintf("chunkerr%d:%d", lastChunk(bn), rng.Intn(world.RetrieveErrVariantsAll))},
				{fmt.Sprintf("chunkerr%d:%d", lastChunk(bn), world.RetrieveErrVariants+rng.Intn(world.RetrieveErrVariantsAll-world.RetrieveErrVariants))},
				{fmt.Sprintf("listerr:%d", rng.Intn(world.RetrieveErrVariants)), fmt.Sprintf("chunkerr%d:%d", rng.Intn(lastChunk(bn)+1), rng.Intn(world.RetrieveErrVariantsAll))},
			}
			for _, sc := range scripts {
				c := Case{ID: len(cases), Start: starts[len(cases)%3], Heights: 3 + rng.Intn(4), Outcomes: map[uint64][]string{}, Seed: rng.Int63(), BigN: bn}
				c.EmptyAs = emptyModes[rng.Intn(len(emptyModes))]
				first := max(c.Start, 1)
				c.BigAt = first + uint64(rng.Intn(c.Heights))
				if sc != nil {
					c.Outcomes[c.BigAt] = sc
				}
				cases = append(cases, c)
			}
		}
	}
	// every third case: the node counts into real Prometheus collectors (a label that was not declared, a
	// collector registered twice ... panic there and nowhere else)
	for i := range cases {
		if i%3 == 0 {
			cases[i].Metrics = "prometheus"
		}
	}
	// long waits: one DA call for a height holding genuine blobs is left unanswered until the caller gives up,
	// while the node keeps running; afterwards the DA layer answers normally
	for k := 0; k < nHangCases(r); k++ {
		c := Case{ID: len(cases), Start: starts[k%3], Heights: 3 + rng.Intn(3), Outcomes: map[uint64][]string{}, Seed: rng.Int63()}
		c.Hang = []string{"listing", "chunk0"}[k%2]
		c.HangAt = max(c.Start, 1) + uint64(rng.Intn(c.Heights))
		c.EmptyAs = emptyModes[rng.Intn(len(emptyModes))]
		cases = append(cases, c)
	}
	return cases
}

// nHangCases: unanswered listing and unanswered chunk fetch; thorough: each for every start height.
func nHangCases(r *vk.Run) int { return r.N(2, 6) }

func chains(ctx context.Context) ([]*world.Produced, error) {
	keys := world.NewKeys("proposer")
	var out []*world.Produced
	for ci, shape := range []string{"xexxe", "xxxxxxx", "exe"} {
		spec := world.ChainSpec{Initial: 1}
		for b, ch := range shape {
			if ch == 'e' {
				spec.Blocks = append(spec.Blocks, nil)
			} else {
				spec.Blocks = append(spec.Blocks, [][]byte{[]byte(fmt.Sprintf("c09-%d-%d", ci, b)), bytes.Repeat([]byte{byte(b)}, 1+50*b)})
			}
		}
		p, err := produce(ctx, spec, keys)
		if err != nil {
			return nil, err
		}
		out = append(out, p)
	}
	return out, nil
}

// child runs the cases of one shard: args = shard nShards tier.
func child(args []string) int {
	world.Silence()
	var shard, n int
	fmt.Sscanf(args[0], "%d", &shard)
	fmt.Sscanf(args[1], "%d", &n)
	r := vk.NewChildRun("C09", args[2], Level, os.Stdout)
	ps, err := chains(context.Background())
	if err != nil {
		// no genuine material, nothing to scan: says nothing about the scan
		r.Inconclusive("C09: the genuine chains could not be produced: " + err.Error())
		return 0
	}
	// cases are a function of (seed, tier) only: every child builds the same list and takes its share
	full := vk.NewRunNoCleanup("C09", args[2], Level)
	cases := buildCases(full)
	type res struct{}
	sem := make(chan res, 4)
	doneCh := make(chan res)
	cnt := 0
	for i, c := range cases {
		if i%n != shard {
			continue
		}
		cnt++
		c := c
		go func() {
			if c.Hang == "" { // the long-wait cases only wait: they run beside the others
				sem <- res{}
				defer func() { <-sem }()
			}
			runCase(r, ps[c.ID%len(ps)], c)
			doneCh <- res{}
		}()
	}
	for i := 0; i < cnt; i++ {
		<-doneCh
	}
	r.FlushHits()
	return 0
}

// Run is the check entry point.
func Run(r *vk.Run) {
	world.Silence()
	maxLen := r.N(3, 4)
	r.Rule = fmt.Sprintf("every sequence of fetch outcomes of length <= %d over {nothing here (ErrBlobNotFound | empty id list | nil result), from the future, listing error, error on chunk 0/1/2} scripted for a DA height before its real contents are served, plus runs of 10-13 failures, for start heights {0,1,17}; failures carry one of 7 (listing) / 11 (chunk fetch, incl. not-found and from-the-future identities) error identities; DA heights hold the genuine header and signed-data blobs of real chains (shuffled, several per height, repeated at other heights) mixed with junk (truncations at every length class, bit flips, absurd varint lengths, wrong message types, empty, random, concatenations, structured protobuf junk), some heights junk-only, some empty (answering ErrBlobNotFound, an empty id list or a nil result), one height with 230-250 ids, and heights with exactly %v ids whose genuine blobs sit in the last fetch chunk only; every third case runs the node with real Prometheus metrics (as node/ builds them with instrumentation on) instead of no-op metrics; plus long-wait cases: the first listing / the first chunk fetch of a height holding all genuine blobs is left unanswered until the caller gives up (or 40 s passed) while the node keeps running, then the DA layer answers normally; the real RetrieveLoop runs in child processes, the harness is the consumer of its events. Oracle on the DA call log and the scan cursor read at every DA call: a height is complete once a listing said it holds nothing or every listed id came back from a successful fetch; the cursor never stands above an incomplete height; a height that failed while incomplete is asked for again before a higher one is completed; at idle every height from the start to the DA head is complete; every blob byte-identical to a genuine one (the producer's own record, no decoder) at a completely fetched height is handed to sync. non-trivial = junk present and at least one scripted non-success outcome; distinct by (start, outcomes, layout)", maxLen, BigNs)
	r.Assume("a stall is judged only logically: more than 200 consecutive ticks taken by the scan without any DA call (and 3 s without one); a case that does not reach the DA head within 90 s without that evidence is inconclusive")
	cases := buildCases(r)
	// (not marked exhaustive: the fault dimension is enumerated completely, the contents are sampled)
	shards := 14
	results := r.RunShards("c09", shards, shards, 40*time.Minute)
	for _, res := range results {
		if res.ExitErr == nil {
			continue
		}
		// a child that was killed from outside (run-time limit, out of memory) says nothing about the scan
		if strings.Contains(res.ExitErr.Error(), "signal: killed") || strings.Contains(res.ExitErr.Error(), "signal: terminated") {
			r.Inconclusive(fmt.Sprintf("a child process running DA scan cases was killed from outside (%v)", res.ExitErr))
			continue
		}
		r.Violation("no-crash", fmt.Sprintf("the process running the DA scan died (%v) while working on a case", res.ExitErr),
			map[string]any{"last_case_started": res.LastCase, "output_tail": res.Tail})
	}
	r.Require("advance-rule", int64(len(cases)))
	r.Require("retry-same-height", int64(len(cases)/2))
	r.Require("genuine-blob-delivered", int64(len(cases)))
	r.Require("holds-none-by-listing", int64(len(cases)/8))
	r.Require("multi-chunk-height-fetched", int64(len(BigNs)))
	r.Require("genuine-in-last-chunk-delivered", int64(len(BigNs)))
	r.Require("unanswered-call-height-read-afterwards", int64(nHangCases(r)))
}
