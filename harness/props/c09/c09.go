// Package c09 decides C09: DA scanning never skips a height, retries on failure, survives any blob.
package c09

import (
	"bytes"
	"context"
	"encoding/json"
	"fmt"
	"math/rand"
	"os"
	"strings"
	"time"

	"github.com/evstack/ev-node/types"
	pb "github.com/evstack/ev-node/types/pb/evnode/v1"
	"google.golang.org/protobuf/proto"

	"verifharness/vk"
	"verifharness/world"
)

// Level is the verification level claimed for this property.
const Level = "fault_enumeration"

func init() { vk.Children["c09"] = child }

// Case is one scan scenario.
type Case struct {
	ID       int                 `json:"id"`
	Start    uint64              `json:"start_height"`
	Heights  int                 `json:"da_heights"`
	Outcomes map[uint64][]string `json:"scripted_outcomes"` // per DA height, consumed before the real contents are served
	Layout   []string            `json:"layout"`            // per DA height: what it holds
	BigAt    uint64              `json:"many_ids_height"`
	Seed     int64               `json:"seed"`
}

func (c Case) key() string {
	b, _ := json.Marshal(c.Outcomes)
	return fmt.Sprintf("s%d n%d big%d %s %s", c.Start, c.Heights, c.BigAt, b, strings.Join(c.Layout, "|"))
}

var errKinds = []string{"notfound", "future", "listerr", "chunkerr0", "chunkerr1", "chunkerr2"}

// enumerate all outcome sequences up to length n over errKinds
func sequences(n int) [][]string {
	var out [][]string
	var rec func(p []string, k int)
	rec = func(p []string, k int) {
		out = append(out, append([]string{}, p...))
		if k == 0 {
			return
		}
		for _, e := range errKinds {
			rec(append(p, e), k-1)
		}
	}
	rec(nil, n)
	return out
}

func junkCorpus(rng *rand.Rand, p *world.Produced, n int) [][]byte {
	var out [][]byte
	src := func() []byte {
		i := rng.Intn(len(p.Heights))
		if p.DataBlob[i] != nil && rng.Intn(2) == 0 {
			return p.DataBlob[i]
		}
		return p.HeaderBlob[i]
	}
	st := types.State{ChainID: "x", InitialHeight: 1, LastBlockHeight: 5}
	for len(out) < n {
		switch rng.Intn(12) {
		case 11:
			out = append(out, world.StructuredJunk(rng, p)...)
		case 0: // truncation: every length class
			s := src()
			cuts := []int{0, 1, 2, len(s) / 2, len(s) - 1, rng.Intn(len(s))}
			out = append(out, append([]byte{}, s[:cuts[rng.Intn(len(cuts))]]...))
		case 1: // bit flip
			s := append([]byte{}, src()...)
			s[rng.Intn(len(s))] ^= 1 << uint(rng.Intn(8))
			out = append(out, s)
		case 2: // absurd varint length
			s := append([]byte{}, src()...)
			pos := 1 + rng.Intn(len(s)-1)
			s = append(append(append([]byte{}, s[:pos]...), 0xff, 0xff, 0xff, 0xff, 0x0f), s[pos:]...)
			out = append(out, s)
		case 3: // wrong message type
			if pb, err := st.ToProto(); err == nil {
				b, _ := json.Marshal(pb)
				out = append(out, b)
			}
			out = append(out, []byte{0x08, 0x96, 0x01})
		case 4:
			out = append(out, []byte{})
		case 5:
			b := make([]byte, 1+rng.Intn(400))
			rng.Read(b)
			out = append(out, b)
		case 6: // length prefix claiming more than there is
			out = append(out, []byte{0x0a, 0xff, 0xff, 0xff, 0xff, 0xff, 0xff, 0xff, 0xff, 0x7f, 0x01})
		case 7: // a header blob with the data blob appended
			out = append(out, append(append([]byte{}, p.HeaderBlob[0]...), src()...))
		case 9: // the proposer's address in both places, no public key, some signature bytes (raw protobuf)
			h := p.Header(rng.Intn(len(p.Heights)))
			sig := make([]byte, 64)
			rng.Read(sig)
			if b, err := proto.Marshal(&pb.SignedHeader{Header: h.Header.ToProto(), Signature: sig, Signer: &pb.Signer{Address: p.Keys.Addr}}); err == nil {
				out = append(out, b)
			}
			d := p.Data(rng.Intn(len(p.Heights)))
			if len(d.Txs) == 0 {
				d.Txs = types.Txs{types.Tx("junk")}
			}
			if b, err := proto.Marshal(&pb.SignedData{Data: d.ToProto(), Signature: sig, Signer: &pb.Signer{Address: p.Keys.Addr}}); err == nil {
				out = append(out, b)
			}
		case 10: // structurally valid protobuf with random subsets of fields present
			out = append(out, world.StructuredJunk(rng, p)...)
		case 8: // deeply nested / repeated tags
			b := bytes.Repeat([]byte{0x0a, 0x02}, 1+rng.Intn(50))
			out = append(out, b)
		}
	}
	return out
}

type blobInfo struct {
	genuine bool
	isData  bool
	height  uint64 // block height
	hash    string // header hash / data commitment
}

// classify decides, with the harness's own knowledge of the proposer's chain, what a blob is.
func classify(p *world.Produced, blob []byte) blobInfo {
	if len(blob) == 0 {
		return blobInfo{}
	}
	h := new(types.SignedHeader)
	if err := h.UnmarshalBinary(blob); err == nil && h.Height() >= p.Spec.Initial && h.Height() <= p.Tip() {
		i := p.Idx(h.Height())
		if bytes.Equal(h.Hash(), p.HeaderHash[i]) && len(h.Signature) > 0 && h.Signer.PubKey != nil && h.Signer.PubKey.Equals(p.Keys.Pub) {
			payload, _ := h.Header.MarshalBinary()
			if ok, _ := p.Keys.Pub.Verify(payload, h.Signature); ok {
				return blobInfo{genuine: true, height: h.Height(), hash: string(h.Hash())}
			}
		}
	}
	var sd types.SignedData
	if err := sd.UnmarshalBinary(blob); err == nil && sd.Metadata != nil && len(sd.Txs) > 0 && sd.Signer.PubKey != nil && sd.Signer.PubKey.Equals(p.Keys.Pub) {
		payload, _ := sd.Data.MarshalBinary()
		if ok, _ := p.Keys.Pub.Verify(payload, sd.Signature); ok {
			return blobInfo{genuine: true, isData: true, height: sd.Metadata.Height, hash: string(sd.Data.DACommitment())}
		}
	}
	return blobInfo{}
}

func runCase(r *vk.Run, p *world.Produced, c Case) {
	ctx, cancel := context.WithCancel(context.Background())
	defer cancel()
	rng := rand.New(rand.NewSource(c.Seed))
	da := world.NewDADouble()
	da.AutoAdvance = false
	// layout
	last := c.Start + uint64(c.Heights)
	first := c.Start
	if first == 0 {
		first = 1
	}
	junk := junkCorpus(rng, p, 40+rng.Intn(60))
	type placed struct {
		h    uint64
		blob []byte
		info blobInfo
	}
	var all []placed
	var genuine [][]byte
	for i := range p.Heights {
		genuine = append(genuine, p.HeaderBlob[i])
		if p.DataBlob[i] != nil {
			genuine = append(genuine, p.DataBlob[i])
		}
	}
	rng.Shuffle(len(genuine), func(a, b int) { genuine[a], genuine[b] = genuine[b], genuine[a] })
	perH := map[uint64][][]byte{}
	for _, g := range genuine {
		h := first + uint64(rng.Intn(int(last-first+1)))
		perH[h] = append(perH[h], g)
		if rng.Intn(5) == 0 { // the same genuine blob again at another height
			h2 := first + uint64(rng.Intn(int(last-first+1)))
			perH[h2] = append(perH[h2], g)
		}
	}
	for _, j := range junk {
		h := first + uint64(rng.Intn(int(last-first+1)))
		perH[h] = append(perH[h], j)
	}
	if c.BigAt != 0 {
		// up to 250 ids at one height: three chunks
		for len(perH[c.BigAt]) < 230+rng.Intn(21) {
			if rng.Intn(4) == 0 {
				perH[c.BigAt] = append(perH[c.BigAt], genuine[rng.Intn(len(genuine))])
			} else {
				perH[c.BigAt] = append(perH[c.BigAt], junk[rng.Intn(len(junk))])
			}
		}
	}
	for h := first; h <= last; h++ {
		blobs := perH[h]
		rng.Shuffle(len(blobs), func(a, b int) { blobs[a], blobs[b] = blobs[b], blobs[a] })
		ng := 0
		for _, b := range blobs {
			info := classify(p, b)
			if info.genuine {
				ng++
			}
			all = append(all, placed{h, b, info})
		}
		c.Layout = append(c.Layout, fmt.Sprintf("%d:%d blobs (%d genuine)", h, len(blobs), ng))
		if len(blobs) > 0 {
			da.Place(h, blobs...)
		}
	}
	da.SetHeight(last)
	for h, seq := range c.Outcomes {
		for _, o := range seq {
			// "<kind>[:<error identity>]"
			variant := 0
			if i := strings.IndexByte(o, ':'); i >= 0 {
				fmt.Sscanf(o[i+1:], "%d", &variant)
				o = o[:i]
			}
			ro := world.RetrieveOutcome{Kind: o, ErrVariant: variant}
			if strings.HasPrefix(o, "chunkerr") {
				ro = world.RetrieveOutcome{Kind: "chunkerr", Chunk: int(o[len(o)-1] - '0'), ErrVariant: variant}
			}
			da.ScriptRetrieve(h, ro)
		}
	}
	r.Journal(c)
	n, err := world.NewNode(ctx, world.NodeOpts{Aggregator: false, DABlockTime: time.Hour, BlockTime: time.Hour, DAStartHeight: c.Start},
		p.Keys, world.NewMemDS(world.NewImage()), world.NewExecDouble(), world.NewSeqDouble(), da, nil)
	if err != nil {
		r.Violation("startup", err.Error(), c)
		return
	}
	l := world.StartLoops(ctx, n, "retrieve")
	defer l.Stop()
	// collect events (the sync loop is not running: the harness is the consumer)
	type ev struct {
		data   bool
		height uint64
		hash   string
		da     uint64
	}
	var events []ev
	drain := func() {
		for {
			select {
			case e := <-n.M.VerifHeaderInCh():
				events = append(events, ev{false, e.Header.Height(), string(e.Header.Hash()), e.DAHeight})
			case e := <-n.M.VerifDataInCh():
				var hgt uint64
				if e.Data.Metadata != nil {
					hgt = e.Data.Metadata.Height
				}
				events = append(events, ev{true, hgt, string(e.Data.DACommitment()), e.DAHeight})
			default:
				return
			}
		}
	}
	old := world.Watchdog
	_ = old
	// scan until the loop was told "from the future" for the first height beyond the DA head
	done := make(chan error, 1)
	go func() { done <- l.RetrieveUntilIdle(da, last+1) }()
	stall := false
	timeout := time.After(90 * time.Second)
wait:
	for {
		select {
		case err := <-done:
			if err != nil {
				stall = true
			}
			break wait
		case <-time.After(2 * time.Millisecond):
			drain()
		case <-timeout:
			stall = true
			break wait
		}
	}
	drain()
	wit := func() any {
		var calls []string
		for _, dc := range da.Calls() {
			calls = append(calls, fmt.Sprintf("%s h=%d %s n=%d", dc.Kind, dc.Height, dc.Outcome, dc.NIDs))
		}
		if len(calls) > 80 {
			calls = calls[:80]
		}
		return map[string]any{"case": c, "da_calls": calls}
	}
	if stall {
		r.Violation("no-stall", fmt.Sprintf("the scan did not reach the DA head (height %d) within 90 s although every DA call returned at once; cursor is at %d", last, n.M.VerifDAHeight()), wit())
		return
	}
	if l.Exited("retrieve") {
		r.Violation("no-stall", "the DA scan loop terminated", wit())
		return
	}
	// ---- oracle over the call log
	var viol []string
	calls := da.Calls()
	type exam struct {
		h       uint64
		outcome string // success | notfound | future | listerr | chunkerr
	}
	var exams []exam
	for i := 0; i < len(calls); i++ {
		if calls[i].Kind != "getids" {
			continue
		}
		e := exam{h: calls[i].Height, outcome: calls[i].Outcome}
		if e.outcome == "ok" {
			e.outcome = "success"
			for j := i + 1; j < len(calls) && calls[j].Kind == "get"; j++ {
				if calls[j].Outcome != "ok" {
					e.outcome = "chunkerr"
				}
			}
		}
		exams = append(exams, e)
	}
	if len(exams) == 0 {
		viol = append(viol, "the scan never asked the DA layer for anything")
	} else {
		r.Hit("starts-at-configured-height")
		if exams[0].h != c.Start {
			viol = append(viol, fmt.Sprintf("scan started at DA height %d, configured start is %d", exams[0].h, c.Start))
		}
	}
	success := map[uint64]bool{}
	for i, e := range exams {
		if e.outcome == "success" {
			success[e.h] = true
		}
		if i == 0 {
			continue
		}
		prev := exams[i-1]
		r.Hit("advance-rule")
		switch prev.outcome {
		case "success", "notfound":
			if e.h != prev.h+1 {
				viol = append(viol, fmt.Sprintf("after DA height %d was examined (%s) the next height asked for is %d, not %d", prev.h, prev.outcome, e.h, prev.h+1))
			}
		default:
			r.Hit("retry-same-height")
			if e.h != prev.h {
				viol = append(viol, fmt.Sprintf("DA height %d answered %q but the scan moved to %d instead of retrying it", prev.h, prev.outcome, e.h))
			}
		}
		if len(viol) > 3 {
			break
		}
	}
	// ---- events: every genuine blob at a successfully examined height is handed to sync, nothing else is
	// A blob is required to be emitted when it is byte-identical to a genuine blob. An altered copy that still
	// carries the proposer's valid signature over the same content (e.g. a bit flipped in an unsigned field) is
	// the proposer's material as well: the scan may emit it or not, either way is conforming.
	exact := map[string]bool{}
	for _, g := range genuine {
		exact[string(g)] = true
	}
	want := map[string]int{}
	allowed := map[string]bool{}
	for _, pl := range all {
		if pl.info.genuine && success[pl.h] {
			k := fmt.Sprintf("%v/%d/%x/%d", pl.info.isData, pl.info.height, pl.info.hash, pl.h)
			allowed[k] = true
			if exact[string(pl.blob)] {
				want[k]++
			}
		}
	}
	got := map[string]int{}
	for _, e := range events {
		got[fmt.Sprintf("%v/%d/%x/%d", e.data, e.height, e.hash, e.da)]++
	}
	if DEBUG {
		for k, v := range want {
			fmt.Printf("want %s x%d got %d\n", k[:12]+k[len(k)-4:], v, got[k])
		}
		for k, v := range got {
			fmt.Printf("got %s x%d want %d\n", k[:12]+k[len(k)-4:], v, want[k])
		}
	}
	for k := range want {
		r.Hit("genuine-blob-delivered")
		if got[k] == 0 {
			viol = append(viol, fmt.Sprintf("genuine blob (data=%v/block/hash/da = %s) at a successfully examined DA height was not handed to sync", strings.HasPrefix(k, "true"), k[:min(len(k), 40)]))
			if len(viol) > 5 {
				break
			}
		}
	}
	for k := range got {
		r.Hit("only-genuine-delivered")
		if !allowed[k] {
			viol = append(viol, fmt.Sprintf("an event was handed to sync that is no genuine blob at that DA height: %s", k[:min(len(k), 40)]))
			if len(viol) > 8 {
				break
			}
		}
	}
	if len(viol) > 0 {
		r.Violation(clauseOf(viol[0]), strings.Join(viol, " ;; "), wit())
	}
	nErr, nJunk := 0, 0
	for _, seq := range c.Outcomes {
		nErr += len(seq)
	}
	for _, pl := range all {
		if !pl.info.genuine {
			nJunk++
		}
	}
	r.Count("da_examinations", int64(len(exams)))
	r.Count("blobs_scanned", int64(len(all)))
	r.Count("junk_blobs", int64(nJunk))
	r.Count("events_emitted", int64(len(events)))
	r.Eval(c.key(), nJunk > 0 && nErr > 0, map[string]any{"start": c.Start, "outcomes": c.Outcomes, "layout": c.Layout})
	r.FlushHits()
}

// DEBUG prints the event comparison (tests only).
var DEBUG bool

func clauseOf(s string) string {
	switch {
	case strings.Contains(s, "retrying"):
		return "retry-same-height"
	case strings.Contains(s, "next height asked"):
		return "advance-rule"
	case strings.Contains(s, "was not handed"):
		return "genuine-blob-delivered"
	case strings.Contains(s, "no genuine blob"):
		return "only-genuine-delivered"
	}
	return "scan"
}

func buildCases(r *vk.Run) []Case {
	rng := r.Rand("cases")
	maxLen := r.N(3, 4)
	seqs := sequences(maxLen)
	r.Set("outcome_sequences_enumerated", len(seqs))
	var cases []Case
	starts := []uint64{0, 1, 17}
	reps := r.N(1, 6)
	var all [][]string
	for k := 0; k < reps; k++ {
		all = append(all, seqs...)
	}
	// the scan retries a failing height up to ten times inside one pass before it gives the pass up:
	// runs of 10-13 consecutive failures reach the pass-level error path (the height must then be
	// examined again on the next tick, not skipped)
	for k := 0; k < r.N(8, 40); k++ {
		n := 10 + rng.Intn(4)
		var long []string
		for j := 0; j < n; j++ {
			switch k % 4 {
			case 0:
				long = append(long, "listerr")
			case 1:
				long = append(long, "chunkerr0")
			case 2:
				long = append(long, []string{"listerr", "chunkerr0", "chunkerr1"}[rng.Intn(3)])
			default:
				long = append(long, []string{"listerr", "chunkerr0"}[j%2])
			}
		}
		all = append(all, long)
	}
	for i, s := range all {
		c := Case{ID: i, Start: starts[i%3], Heights: 4 + rng.Intn(5), Outcomes: map[uint64][]string{}, Seed: rng.Int63()}
		first := c.Start
		if first == 0 {
			first = 1
		}
		// the enumerated sequence goes to one height; a second height gets another short one
		h1 := first + uint64(rng.Intn(c.Heights))
		// every failing outcome gets one of the error identities a DA client can surface (generic, deadline
		// exceeded plain / wrapped, the DA interface's sentinels, an RPC transport error)
		withIdentity := func(seq []string) []string {
			out := make([]string, len(seq))
			for k, o := range seq {
				if o == "listerr" || strings.HasPrefix(o, "chunkerr") {
					o = fmt.Sprintf("%s:%d", o, rng.Intn(world.RetrieveErrVariants))
				}
				out[k] = o
			}
			return out
		}
		s = withIdentity(s)
		c.Outcomes[h1] = s
		if i%4 == 0 {
			h2 := first + uint64(rng.Intn(c.Heights))
			if h2 != h1 {
				c.Outcomes[h2] = withIdentity(seqs[rng.Intn(len(seqs))])
				if len(c.Outcomes[h2]) > 2 {
					c.Outcomes[h2] = c.Outcomes[h2][:2]
				}
			}
		}
		if i%5 == 0 {
			c.BigAt = h1
		}
		cases = append(cases, c)
	}
	return cases
}

func chains(ctx context.Context) ([]*world.Produced, error) {
	keys := world.NewKeys("proposer")
	var out []*world.Produced
	for ci, shape := range []string{"xexxe", "xxxxxxx", "exe"} {
		spec := world.ChainSpec{Initial: 1}
		for b, ch := range shape {
			if ch == 'e' {
				spec.Blocks = append(spec.Blocks, nil)
			} else {
				spec.Blocks = append(spec.Blocks, [][]byte{[]byte(fmt.Sprintf("c09-%d-%d", ci, b)), bytes.Repeat([]byte{byte(b)}, 1+50*b)})
			}
		}
		p, err := world.ProduceChain(ctx, spec, keys)
		if err != nil {
			return nil, err
		}
		out = append(out, p)
	}
	return out, nil
}

// child runs the cases of one shard: args = shard nShards tier.
func child(args []string) int {
	world.Silence()
	var shard, n int
	fmt.Sscanf(args[0], "%d", &shard)
	fmt.Sscanf(args[1], "%d", &n)
	r := vk.NewChildRun("C09", args[2], Level, os.Stdout)
	ps, err := chains(context.Background())
	if err != nil {
		r.Violation("producer", err.Error(), nil)
		return 0
	}
	// cases are a function of (seed, tier) only: every child builds the same list and takes its share
	full := vk.NewRunNoCleanup("C09", args[2], Level)
	cases := buildCases(full)
	type res struct{}
	sem := make(chan res, 4)
	doneCh := make(chan res)
	cnt := 0
	for i, c := range cases {
		if i%n != shard {
			continue
		}
		cnt++
		c := c
		go func() {
			sem <- res{}
			runCase(r, ps[c.ID%len(ps)], c)
			<-sem
			doneCh <- res{}
		}()
	}
	for i := 0; i < cnt; i++ {
		<-doneCh
	}
	r.FlushHits()
	return 0
}

// Run is the check entry point.
func Run(r *vk.Run) {
	world.Silence()
	maxLen := r.N(3, 4)
	r.Rule = fmt.Sprintf("every sequence of fetch outcomes of length <= %d over {not found, from the future, listing error, error on chunk 0/1/2} scripted for a DA height before its real contents are served, for start heights {0,1,17}; DA heights hold the genuine header and signed-data blobs of real chains (shuffled, several per height, repeated at other heights) mixed with junk (truncations at every length class, bit flips, absurd varint lengths, wrong message types, empty, random, concatenations), one height with 230-250 ids (three fetch chunks); the real RetrieveLoop runs in child processes, the harness is the consumer of its events. Oracle on the DA call log: start height, advance only after success / nothing-here, retry the same height otherwise; every genuine blob at a successfully examined height is emitted, nothing else is. non-trivial = junk present and at least one non-success outcome; distinct by (start, outcomes, layout)", maxLen)
	r.Assume("the 100 ms retry pause of the scan is real time; a scan that does not reach the DA head within 90 s although every DA call returns at once is judged stalled")
	cases := buildCases(r)
	// (not marked exhaustive: the fault dimension is enumerated completely, the contents are sampled)
	shards := 14
	results := r.RunShards("c09", shards, shards, 40*time.Minute)
	for _, res := range results {
		if res.ExitErr != nil {
			r.Violation("no-crash", fmt.Sprintf("the process running the DA scan died (%v) while working on a case", res.ExitErr),
				map[string]any{"last_case_started": res.LastCase, "output_tail": res.Tail})
		}
	}
	r.Require("advance-rule", int64(len(cases)))
	r.Require("retry-same-height", int64(len(cases)/2))
	r.Require("genuine-blob-delivered", int64(len(cases)))
}
