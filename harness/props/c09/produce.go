package c09

import (
	"context"
	"fmt"
	"time"

	"verifharness/world"
)

// produce runs a real aggregator over the spec and captures the genuine DA blobs from its real submission path,
// like world.ProduceChain, but maps the blobs to blocks by their position (headers are submitted in height order,
// signed data in height order of the non-empty blocks) and takes the transactions from the specification: the
// reference for "genuine" then owes nothing to the blob decoders, which are under test here.
func produce(ctx context.Context, spec world.ChainSpec, keys world.Keys) (*world.Produced, error) {
	if spec.Initial == 0 {
		spec.Initial = 1
	}
	exec, seq, da := world.NewExecDouble(), world.NewSeqDouble(), world.NewDADouble()
	n, err := world.NewNode(ctx, world.NodeOpts{Aggregator: true, InitialHeight: spec.Initial}, keys, world.NewMemDS(world.NewImage()), exec, seq, da, nil)
	if err != nil {
		return nil, err
	}
	if err := n.M.VerifPublishBlock(ctx); err != nil {
		return nil, fmt.Errorf("genesis step: %w", err)
	}
	t := world.GenesisTime
	for _, txs := range spec.Blocks {
		t = t.Add(time.Second)
		if len(txs) == 0 {
			seq.Push(world.SeqResp{Kind: world.SeqEmpty, Time: t})
		} else {
			seq.Push(world.SeqResp{Kind: world.SeqTxs, Time: t, Txs: txs})
		}
		if err := n.M.VerifPublishBlock(ctx); err != nil {
			return nil, fmt.Errorf("production step: %w", err)
		}
	}
	tip, _ := n.Store.Height(ctx)
	if tip != spec.Initial+uint64(len(spec.Blocks)) {
		return nil, fmt.Errorf("aggregator stopped at %d, expected %d", tip, spec.Initial+uint64(len(spec.Blocks)))
	}
	collect := func(once func(context.Context) error, pending func() uint64) ([][]byte, error) {
		from := len(da.Calls())
		for it := 0; it < 64; it++ {
			if err := once(ctx); err != nil {
				return nil, err
			}
			if pending() == 0 {
				break
			}
		}
		var out [][]byte
		for _, c := range da.Calls()[from:] {
			if c.Kind == "submit" {
				out = append(out, c.Blobs[:c.Stored]...)
			}
		}
		return out, nil
	}
	hdrBlobs, err := collect(n.M.VerifSubmitHeadersOnce, func() uint64 { _, _, ph, _ := n.M.VerifWatermarks(); return ph })
	if err != nil {
		return nil, fmt.Errorf("submit headers: %w", err)
	}
	dataBlobs, err := collect(n.M.VerifSubmitDataOnce, func() uint64 { _, _, _, pd := n.M.VerifWatermarks(); return pd })
	if err != nil {
		return nil, fmt.Errorf("submit data: %w", err)
	}
	nData := 0
	for _, txs := range spec.Blocks {
		if len(txs) > 0 {
			nData++
		}
	}
	if len(hdrBlobs) != len(spec.Blocks)+1 || len(dataBlobs) != nData {
		return nil, fmt.Errorf("%d header blobs and %d data blobs were submitted for %d blocks, %d of them with transactions", len(hdrBlobs), len(dataBlobs), len(spec.Blocks)+1, nData)
	}
	p := &world.Produced{Spec: spec, Keys: keys, Agg: n, Exec: exec, DA: da}
	di := 0
	for h := spec.Initial; h <= tip; h++ {
		hdr, data, err := n.Store.GetBlockData(ctx, h)
		if err != nil {
			return nil, err
		}
		hb, err := hdr.MarshalBinary()
		if err != nil {
			return nil, err
		}
		db, err := data.MarshalBinary()
		if err != nil {
			return nil, err
		}
		var txs [][]byte
		if i := int(h - spec.Initial); i > 0 {
			txs = spec.Blocks[i-1]
		}
		p.Heights = append(p.Heights, h)
		p.HeaderBin = append(p.HeaderBin, hb)
		p.DataBin = append(p.DataBin, db)
		p.HeaderHash = append(p.HeaderHash, hdr.Hash())
		p.Txs = append(p.Txs, txs)
		p.HeaderBlob = append(p.HeaderBlob, hdrBlobs[int(h-spec.Initial)])
		if len(txs) > 0 {
			p.DataBlob = append(p.DataBlob, dataBlobs[di])
			di++
		} else {
			p.DataBlob = append(p.DataBlob, nil)
		}
	}
	return p, nil
}
