package world

import (
	"context"
	"fmt"
	"time"

	"github.com/evstack/ev-node/types"
)

// ChainSpec describes a proposer chain: one entry per block after the genesis block; nil = empty block.
type ChainSpec struct {
	Initial uint64
	Blocks  [][][]byte
	// GenesisTime overrides the fixed genesis time (only needed where third-party library code
	// compares header times with the wall clock, as go-header's syncer does).
	GenesisTime time.Time
	// CustomPayload: the chain uses a non-default signature payload provider (aggregator and full nodes alike)
	CustomPayload bool
}

// Produced is a chain produced by a real aggregator Manager, with the bytes that travel.
type Produced struct {
	Spec    ChainSpec
	Keys    Keys
	Agg     *Node
	Exec    *ExecDouble
	DA      *DADouble
	Heights []uint64 // Initial .. tip
	// per height (index i = height - Initial)
	HeaderBin  [][]byte // P2P / store encoding of the signed header
	DataBin    [][]byte // P2P / store encoding of the data (with metadata)
	HeaderBlob [][]byte // genuine DA blob of the header
	DataBlob   [][]byte // genuine DA blob (signed data); nil for empty blocks
	HeaderHash [][]byte
	Txs        [][][]byte
	Roots      [][]byte // state root after the block
}

// Tip returns the last height.
func (p *Produced) Tip() uint64 { return p.Heights[len(p.Heights)-1] }

// Idx converts a height to an index.
func (p *Produced) Idx(h uint64) int { return int(h - p.Spec.Initial) }

// Header returns a fresh copy of the signed header at index i.
func (p *Produced) Header(i int) *types.SignedHeader {
	h := new(types.SignedHeader)
	if err := h.UnmarshalBinary(p.HeaderBin[i]); err != nil {
		panic(err)
	}
	return h
}

// Data returns a fresh copy of the data at index i.
func (p *Produced) Data(i int) *types.Data {
	d := new(types.Data)
	if err := d.UnmarshalBinary(p.DataBin[i]); err != nil {
		panic(err)
	}
	return d
}

// ProduceChain runs a real aggregator over the spec and captures the genuine DA blobs by running
// the real submission path against a DA double.
func ProduceChain(ctx context.Context, spec ChainSpec, keys Keys) (*Produced, error) {
	if spec.Initial == 0 {
		spec.Initial = 1
	}
	exec := NewExecDouble()
	seq := NewSeqDouble()
	da := NewDADouble()
	n, err := NewNode(ctx, NodeOpts{Aggregator: true, InitialHeight: spec.Initial, GenesisTime: spec.GenesisTime, CustomPayload: spec.CustomPayload}, keys, NewMemDS(NewImage()), exec, seq, da, nil)
	if err != nil {
		return nil, err
	}
	if err := n.M.VerifPublishBlock(ctx); err != nil {
		return nil, fmt.Errorf("genesis step: %w", err)
	}
	t := GenesisTime
	if !spec.GenesisTime.IsZero() {
		t = spec.GenesisTime
	}
	for _, txs := range spec.Blocks {
		t = t.Add(time.Second)
		if len(txs) == 0 {
			seq.Push(SeqResp{Kind: SeqEmpty, Time: t})
		} else {
			seq.Push(SeqResp{Kind: SeqTxs, Time: t, Txs: txs})
		}
		if err := n.M.VerifPublishBlock(ctx); err != nil {
			return nil, fmt.Errorf("production step: %w", err)
		}
	}
	p := &Produced{Spec: spec, Keys: keys, Agg: n, Exec: exec, DA: da}
	tip, _ := n.Store.Height(ctx)
	if tip != spec.Initial+uint64(len(spec.Blocks)) {
		return nil, fmt.Errorf("aggregator stopped at %d, expected %d", tip, spec.Initial+uint64(len(spec.Blocks)))
	}
	// genuine blobs: submission iterations until nothing is pending (everything is accepted); the blobs are mapped to
	// block heights by decoding them, not by their position
	hdrBlob, dataBlob := map[uint64][]byte{}, map[uint64][]byte{}
	for it := 0; it < 64; it++ {
		if err := n.M.VerifSubmitHeadersOnce(ctx); err != nil {
			return nil, fmt.Errorf("submit headers: %w", err)
		}
		if err := n.M.VerifSubmitDataOnce(ctx); err != nil {
			return nil, fmt.Errorf("submit data: %w", err)
		}
		if _, _, ph, pd := n.M.VerifWatermarks(); ph == 0 && pd == 0 {
			break
		}
	}
	for _, c := range da.Calls() {
		if c.Kind != "submit" {
			continue
		}
		for _, b := range c.Blobs {
			if h, isData, ok := DecodeBlobHeight(b); ok {
				if isData {
					dataBlob[h] = b
				} else {
					hdrBlob[h] = b
				}
			}
		}
	}
	root := InitRoot(n.Genesis.ChainID, spec.Initial)
	for h := spec.Initial; h <= tip; h++ {
		hdr, data, err := n.Store.GetBlockData(ctx, h)
		if err != nil {
			return nil, err
		}
		hb, err := hdr.MarshalBinary()
		if err != nil {
			return nil, err
		}
		db, err := data.MarshalBinary()
		if err != nil {
			return nil, err
		}
		txs := make([][]byte, len(data.Txs))
		for i := range data.Txs {
			txs[i] = data.Txs[i]
		}
		root = RootAfter(root, txs)
		p.Heights = append(p.Heights, h)
		p.HeaderBin = append(p.HeaderBin, hb)
		p.DataBin = append(p.DataBin, db)
		p.HeaderHash = append(p.HeaderHash, hdr.Hash())
		p.Txs = append(p.Txs, txs)
		p.Roots = append(p.Roots, root)
		if hdrBlob[h] == nil {
			return nil, fmt.Errorf("no header blob for height %d was submitted", h)
		}
		p.HeaderBlob = append(p.HeaderBlob, hdrBlob[h])
		if len(txs) > 0 {
			if dataBlob[h] == nil {
				return nil, fmt.Errorf("no data blob for height %d was submitted", h)
			}
			p.DataBlob = append(p.DataBlob, dataBlob[h])
		} else {
			p.DataBlob = append(p.DataBlob, nil)
		}
	}
	return p, nil
}

// DecodeBlobHeight classifies a genuine DA blob: it returns the block height it belongs to and
// whether it is a signed-data blob (false: header blob). ok is false for anything else.
func DecodeBlobHeight(blob []byte) (height uint64, isData bool, ok bool) {
	h := new(types.SignedHeader)
	if err := h.UnmarshalBinary(blob); err == nil && len(h.ProposerAddress) > 0 && len(h.Signature) > 0 && h.Height() > 0 {
		return h.Height(), false, true
	}
	var sd types.SignedData
	if err := sd.UnmarshalBinary(blob); err == nil && sd.Metadata != nil && len(sd.Txs) > 0 {
		return sd.Metadata.Height, true, true
	}
	return 0, false, false
}
