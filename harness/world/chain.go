package world

import (
	"context"
	"fmt"
	"time"

	"github.com/evstack/ev-node/types"
)

// ChainSpec describes a proposer chain: one entry per block after the genesis block; nil = empty block.
type ChainSpec struct {
	Initial uint64
	Blocks  [][][]byte
	// GenesisTime overrides the fixed genesis time (only needed where third-party library code
	// compares header times with the wall clock, as go-header's syncer does).
	GenesisTime time.Time
}

// Produced is a chain produced by a real aggregator Manager, with the bytes that travel.
type Produced struct {
	Spec    ChainSpec
	Keys    Keys
	Agg     *Node
	Exec    *ExecDouble
	DA      *DADouble
	Heights []uint64 // Initial .. tip
	// per height (index i = height - Initial)
	HeaderBin  [][]byte // P2P / store encoding of the signed header
	DataBin    [][]byte // P2P / store encoding of the data (with metadata)
	HeaderBlob [][]byte // genuine DA blob of the header
	DataBlob   [][]byte // genuine DA blob (signed data); nil for empty blocks
	HeaderHash [][]byte
	Txs        [][][]byte
	Roots      [][]byte // state root after the block
}

// Tip returns the last height.
func (p *Produced) Tip() uint64 { return p.Heights[len(p.Heights)-1] }

// Idx converts a height to an index.
func (p *Produced) Idx(h uint64) int { return int(h - p.Spec.Initial) }

// Header returns a fresh copy of the signed header at index i.
func (p *Produced) Header(i int) *types.SignedHeader {
	h := new(types.SignedHeader)
	if err := h.UnmarshalBinary(p.HeaderBin[i]); err != nil {
		panic(err)
	}
	return h
}

// Data returns a fresh copy of the data at index i.
func (p *Produced) Data(i int) *types.Data {
	d := new(types.Data)
	if err := d.UnmarshalBinary(p.DataBin[i]); err != nil {
		panic(err)
	}
	return d
}

// ProduceChain runs a real aggregator over the spec and captures the genuine DA blobs by running
// the real submission path against a DA double.
func ProduceChain(ctx context.Context, spec ChainSpec, keys Keys) (*Produced, error) {
	if spec.Initial == 0 {
		spec.Initial = 1
	}
	exec := NewExecDouble()
	seq := NewSeqDouble()
	da := NewDADouble()
	n, err := NewNode(ctx, NodeOpts{Aggregator: true, InitialHeight: spec.Initial, GenesisTime: spec.GenesisTime}, keys, NewMemDS(NewImage()), exec, seq, da, nil)
	if err != nil {
		return nil, err
	}
	if err := n.M.VerifPublishBlock(ctx); err != nil {
		return nil, fmt.Errorf("genesis step: %w", err)
	}
	t := GenesisTime
	if !spec.GenesisTime.IsZero() {
		t = spec.GenesisTime
	}
	for _, txs := range spec.Blocks {
		t = t.Add(time.Second)
		if len(txs) == 0 {
			seq.Push(SeqResp{Kind: SeqEmpty, Time: t})
		} else {
			seq.Push(SeqResp{Kind: SeqTxs, Time: t, Txs: txs})
		}
		if err := n.M.VerifPublishBlock(ctx); err != nil {
			return nil, fmt.Errorf("production step: %w", err)
		}
	}
	p := &Produced{Spec: spec, Keys: keys, Agg: n, Exec: exec, DA: da}
	tip, _ := n.Store.Height(ctx)
	if tip != spec.Initial+uint64(len(spec.Blocks)) {
		return nil, fmt.Errorf("aggregator stopped at %d, expected %d", tip, spec.Initial+uint64(len(spec.Blocks)))
	}
	// genuine blobs: one submission per stream, everything accepted
	if err := n.M.VerifSubmitHeadersOnce(ctx); err != nil {
		return nil, fmt.Errorf("submit headers: %w", err)
	}
	nHeaderCalls := len(da.Calls())
	if err := n.M.VerifSubmitDataOnce(ctx); err != nil {
		return nil, fmt.Errorf("submit data: %w", err)
	}
	var hdrBlobs, dataBlobs [][]byte
	for i, c := range da.Calls() {
		if c.Kind != "submit" {
			continue
		}
		if i < nHeaderCalls {
			hdrBlobs = append(hdrBlobs, c.Blobs...)
		} else {
			dataBlobs = append(dataBlobs, c.Blobs...)
		}
	}
	root := InitRoot(n.Genesis.ChainID, spec.Initial)
	di := 0
	for h := spec.Initial; h <= tip; h++ {
		hdr, data, err := n.Store.GetBlockData(ctx, h)
		if err != nil {
			return nil, err
		}
		hb, err := hdr.MarshalBinary()
		if err != nil {
			return nil, err
		}
		db, err := data.MarshalBinary()
		if err != nil {
			return nil, err
		}
		txs := make([][]byte, len(data.Txs))
		for i := range data.Txs {
			txs[i] = data.Txs[i]
		}
		root = RootAfter(root, txs)
		p.Heights = append(p.Heights, h)
		p.HeaderBin = append(p.HeaderBin, hb)
		p.DataBin = append(p.DataBin, db)
		p.HeaderHash = append(p.HeaderHash, hdr.Hash())
		p.Txs = append(p.Txs, txs)
		p.Roots = append(p.Roots, root)
		idx := int(h - spec.Initial)
		if idx >= len(hdrBlobs) {
			return nil, fmt.Errorf("no header blob for height %d (%d blobs submitted)", h, len(hdrBlobs))
		}
		p.HeaderBlob = append(p.HeaderBlob, hdrBlobs[idx])
		if len(txs) > 0 {
			if di >= len(dataBlobs) {
				return nil, fmt.Errorf("no data blob for height %d", h)
			}
			p.DataBlob = append(p.DataBlob, dataBlobs[di])
			di++
		} else {
			p.DataBlob = append(p.DataBlob, nil)
		}
	}
	return p, nil
}

// DecodeBlobHeight classifies a genuine DA blob: it returns the block height it belongs to and
// whether it is a signed-data blob (false: header blob). ok is false for anything else.
func DecodeBlobHeight(blob []byte) (height uint64, isData bool, ok bool) {
	h := new(types.SignedHeader)
	if err := h.UnmarshalBinary(blob); err == nil && len(h.ProposerAddress) > 0 && len(h.Signature) > 0 && h.Height() > 0 {
		return h.Height(), false, true
	}
	var sd types.SignedData
	if err := sd.UnmarshalBinary(blob); err == nil && sd.Metadata != nil && len(sd.Txs) > 0 {
		return sd.Metadata.Height, true, true
	}
	return 0, false, false
}
