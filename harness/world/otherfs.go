package world

import (
	"fmt"
	"os"
	"syscall"
)

// DirOnOtherFS creates and returns a fresh directory on another file system than dir (compared by st_dev), or "" if
// this machine offers none. Used to run code with TMPDIR on another file system than a node's home, the layout of
// machines with a tmpfs /tmp: a file staged in the temporary directory cannot be renamed into the home there.
func DirOnOtherFS(dir string) string {
	var here syscall.Stat_t
	if err := syscall.Stat(dir, &here); err != nil {
		return ""
	}
	for _, cand := range []string{"/dev/shm", "/run/shm", fmt.Sprintf("/run/user/%d", os.Getuid()), "/var/tmp", "/tmp"} {
		var st syscall.Stat_t
		if err := syscall.Stat(cand, &st); err != nil || st.Dev == here.Dev {
			continue
		}
		d, err := os.MkdirTemp(cand, "verif-tmpdir-*")
		if err != nil {
			continue
		}
		return d
	}
	return ""
}
