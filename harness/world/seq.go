package world

import (
	"context"
	"crypto/sha256"
	"errors"
	"fmt"
	"sync"
	"time"

	coresequencer "github.com/evstack/ev-node/core/sequencer"
)

// SeqKind is the kind of a scripted sequencing-layer response.
type SeqKind int

const (
	SeqTxs      SeqKind = iota // non-empty batch
	SeqEmpty                   // batch with zero transactions
	SeqNilResp                 // nil response, nil error
	SeqNilBatch                // response with nil batch
	SeqError                   // transient error
)

func (k SeqKind) String() string {
	return [...]string{"txs", "empty", "nilresp", "nilbatch", "error"}[k]
}

// SeqResp is one scripted response.
type SeqResp struct {
	Kind SeqKind
	Txs  [][]byte
	Time time.Time
	ID   int // release order id
	// Err, if set, is the error a SeqError response returns (default: an opaque errors.New value). Sequencing layers
	// bound their own backend calls with timeouts and wrap what they get: the error may carry the identity of
	// context.DeadlineExceeded / context.Canceled although the node's own context is alive.
	Err error
}

// SeqCall records one GetNextBatch call and what it returned.
type SeqCall struct {
	Seq           int
	LastBatchData [][]byte
	Resp          *SeqResp // nil when the script was exhausted (nil response returned)
}

// SeqDouble is a scripted sequencing layer.
type SeqDouble struct {
	mu      sync.Mutex
	script  []SeqResp
	calls   []SeqCall
	submits [][][]byte
	nextID  int
	Delay   func()
	// Auto, if set, makes up a response whenever the script is empty (n = number of responses released so far)
	Auto func(n int) *SeqResp
}

// NewSeqDouble creates a scripted sequencing layer.
func NewSeqDouble() *SeqDouble { return &SeqDouble{} }

// Push appends a scripted response and returns its release id.
func (s *SeqDouble) Push(r SeqResp) int {
	s.mu.Lock()
	defer s.mu.Unlock()
	r.ID = s.nextID
	s.nextID++
	s.script = append(s.script, r)
	return r.ID
}

// Pending returns the number of unconsumed scripted responses.
func (s *SeqDouble) Pending() int {
	s.mu.Lock()
	defer s.mu.Unlock()
	return len(s.script)
}

func (s *SeqDouble) SubmitBatchTxs(ctx context.Context, req coresequencer.SubmitBatchTxsRequest) (*coresequencer.SubmitBatchTxsResponse, error) {
	s.mu.Lock()
	defer s.mu.Unlock()
	if req.Batch != nil {
		s.submits = append(s.submits, req.Batch.Transactions)
	}
	return &coresequencer.SubmitBatchTxsResponse{}, nil
}

func (s *SeqDouble) GetNextBatch(ctx context.Context, req coresequencer.GetNextBatchRequest) (*coresequencer.GetNextBatchResponse, error) {
	if s.Delay != nil {
		s.Delay()
	}
	s.mu.Lock()
	defer s.mu.Unlock()
	call := SeqCall{Seq: len(s.calls), LastBatchData: req.LastBatchData}
	if len(s.script) == 0 && s.Auto != nil {
		if a := s.Auto(s.nextID); a != nil {
			a.ID = s.nextID
			s.nextID++
			s.script = append(s.script, *a)
		}
	}
	if len(s.script) == 0 {
		s.calls = append(s.calls, call)
		return nil, nil
	}
	r := s.script[0]
	s.script = s.script[1:]
	call.Resp = &r
	s.calls = append(s.calls, call)
	bd := sha256.Sum256([]byte(fmt.Sprintf("batchdata-%d", r.ID)))
	switch r.Kind {
	case SeqTxs:
		txs := make([][]byte, len(r.Txs))
		for i := range r.Txs {
			txs[i] = append([]byte{}, r.Txs[i]...)
		}
		return &coresequencer.GetNextBatchResponse{Batch: &coresequencer.Batch{Transactions: txs}, Timestamp: r.Time, BatchData: [][]byte{bd[:]}}, nil
	case SeqEmpty:
		return &coresequencer.GetNextBatchResponse{Batch: &coresequencer.Batch{}, Timestamp: r.Time, BatchData: [][]byte{bd[:]}}, nil
	case SeqNilResp:
		return nil, nil
	case SeqNilBatch:
		return &coresequencer.GetNextBatchResponse{Batch: nil, Timestamp: r.Time}, nil
	default:
		if r.Err != nil {
			return nil, r.Err
		}
		return nil, errors.New("verif: scripted sequencing error")
	}
}

func (s *SeqDouble) VerifyBatch(ctx context.Context, req coresequencer.VerifyBatchRequest) (*coresequencer.VerifyBatchResponse, error) {
	return &coresequencer.VerifyBatchResponse{Status: true}, nil
}

// Calls returns a copy of the call log.
func (s *SeqDouble) Calls() []SeqCall {
	s.mu.Lock()
	defer s.mu.Unlock()
	return append([]SeqCall(nil), s.calls...)
}
