package world

import (
	"math/rand"

	"github.com/libp2p/go-libp2p/core/crypto"
	"google.golang.org/protobuf/proto"

	pb "github.com/evstack/ev-node/types/pb/evnode/v1"
)

// StructuredJunk builds well-formed SignedHeader / SignedData protobuf messages in which arbitrary parts
// are missing or foreign: no metadata, no header, no signer, signer without key, key without address,
// garbage key bytes, empty signature, ... (shapes the node's own encoder never produces).
func StructuredJunk(rng *rand.Rand, p *Produced) [][]byte {
	var out [][]byte
	pick := func() bool { return rng.Intn(2) == 0 }
	pubBytes := func() []byte {
		switch rng.Intn(4) {
		case 0:
			return nil
		case 1:
			b := make([]byte, 1+rng.Intn(40))
			rng.Read(b)
			return b
		default:
			pb, _ := crypto.MarshalPublicKey(p.Keys.Pub)
			return pb
		}
	}
	signer := func() *pb.Signer {
		if rng.Intn(4) == 0 {
			return nil
		}
		s := &pb.Signer{PubKey: pubBytes()}
		if pick() {
			s.Address = p.Keys.Addr
		}
		return s
	}
	sig := func() []byte {
		if rng.Intn(3) == 0 {
			return nil
		}
		b := make([]byte, 64)
		rng.Read(b)
		return b
	}
	for k := 0; k < 3; k++ {
		i := rng.Intn(len(p.Heights))
		// signed data
		d := &pb.Data{}
		if pick() {
			g := p.Data(i)
			if g.Metadata != nil {
				d.Metadata = &pb.Metadata{ChainId: g.Metadata.ChainID, Height: g.Metadata.Height, Time: g.Metadata.Time}
				if pick() {
					d.Metadata.ChainId = ""
				}
			}
		}
		for t := 0; t < rng.Intn(3); t++ {
			d.Txs = append(d.Txs, []byte{byte('x' + t)})
		}
		sd := &pb.SignedData{Signature: sig(), Signer: signer()}
		if rng.Intn(5) > 0 {
			sd.Data = d
		}
		if b, err := proto.Marshal(sd); err == nil {
			out = append(out, b)
		}
		// signed header
		sh := &pb.SignedHeader{Signature: sig(), Signer: signer()}
		if rng.Intn(5) > 0 {
			h := p.Header(i).Header.ToProto()
			if pick() {
				h.Version = nil
			}
			if pick() {
				h.ProposerAddress = nil
			}
			if rng.Intn(4) == 0 {
				h.ChainId = ""
			}
			sh.Header = h
		}
		if b, err := proto.Marshal(sh); err == nil {
			out = append(out, b)
		}
	}
	return out
}
