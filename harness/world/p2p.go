package world

import (
	"context"
	"errors"
	"sync"

	goheader "github.com/celestiaorg/go-header"
)

// P2PStore is a minimal goheader.Store double: an append-only height-indexed list.
// The node's store-retrieve loops only use Height and GetByHeight.
type P2PStore[H goheader.Header[H]] struct {
	mu    sync.Mutex
	base  uint64 // height of first element
	items []H
}

// NewP2PStore creates a store whose first appended item has height base.
func NewP2PStore[H goheader.Header[H]](base uint64) *P2PStore[H] {
	return &P2PStore[H]{base: base}
}

var errNotFound = errors.New("p2p store double: not found")

// Add appends the next item (the caller guarantees height order).
func (s *P2PStore[H]) Add(h H) {
	s.mu.Lock()
	s.items = append(s.items, h)
	s.mu.Unlock()
}

func (s *P2PStore[H]) Height() uint64 {
	s.mu.Lock()
	defer s.mu.Unlock()
	if len(s.items) == 0 {
		return 0
	}
	return s.base + uint64(len(s.items)) - 1
}

func (s *P2PStore[H]) GetByHeight(ctx context.Context, h uint64) (H, error) {
	s.mu.Lock()
	defer s.mu.Unlock()
	var zero H
	if h < s.base || h >= s.base+uint64(len(s.items)) {
		return zero, errNotFound
	}
	return s.items[h-s.base], nil
}

func (s *P2PStore[H]) Head(ctx context.Context, _ ...goheader.HeadOption[H]) (H, error) {
	s.mu.Lock()
	defer s.mu.Unlock()
	var zero H
	if len(s.items) == 0 {
		return zero, errNotFound
	}
	return s.items[len(s.items)-1], nil
}

func (s *P2PStore[H]) Get(ctx context.Context, hash goheader.Hash) (H, error) {
	s.mu.Lock()
	defer s.mu.Unlock()
	for _, it := range s.items {
		if string(it.Hash()) == string(hash) {
			return it, nil
		}
	}
	var zero H
	return zero, errNotFound
}

// GetRangeByHeight returns the items in (from.Height(), to), as go-header's store does.
func (s *P2PStore[H]) GetRangeByHeight(ctx context.Context, from H, to uint64) ([]H, error) {
	return s.GetRange(ctx, from.Height()+1, to)
}
func (s *P2PStore[H]) Init(context.Context, H) error { return nil }
func (s *P2PStore[H]) Has(ctx context.Context, hash goheader.Hash) (bool, error) {
	_, err := s.Get(ctx, hash)
	return err == nil, nil
}
func (s *P2PStore[H]) HasAt(ctx context.Context, h uint64) bool {
	_, err := s.GetByHeight(ctx, h)
	return err == nil
}
func (s *P2PStore[H]) Append(ctx context.Context, hs ...H) error {
	for _, h := range hs {
		s.Add(h)
	}
	return nil
}

// GetRange returns the items with heights in [from, to).
func (s *P2PStore[H]) GetRange(ctx context.Context, from, to uint64) ([]H, error) {
	s.mu.Lock()
	defer s.mu.Unlock()
	if from < s.base || to > s.base+uint64(len(s.items)) || from >= to {
		return nil, errNotFound
	}
	return append([]H(nil), s.items[from-s.base:to-s.base]...), nil
}

// Broadcaster records payloads handed to WriteToStoreAndBroadcast.
type Broadcaster[T any] struct {
	mu    sync.Mutex
	items []T
	// Sink, if set, receives every payload (e.g. to feed a P2P store double).
	Sink func(T)
	Err  error
}

func (b *Broadcaster[T]) WriteToStoreAndBroadcast(ctx context.Context, payload T) error {
	b.mu.Lock()
	b.items = append(b.items, payload)
	sink := b.Sink
	err := b.Err
	b.mu.Unlock()
	if sink != nil {
		sink(payload)
	}
	return err
}

// Items returns what was broadcast so far.
func (b *Broadcaster[T]) Items() []T {
	b.mu.Lock()
	defer b.mu.Unlock()
	return append([]T(nil), b.items...)
}
