package world

import (
	"github.com/libp2p/go-libp2p/core/crypto"

	"github.com/evstack/ev-node/pkg/signer"
)

// HookSigner is the proposer's signer with a hook at the start of GetPublic: harness code that runs at a point of the
// node's own activity at which nothing of the node is waiting for anything external (a scenario can make something else
// happen exactly there).
type HookSigner struct {
	Inner       signer.Signer
	OnGetPublic func()
}

func (h *HookSigner) Sign(message []byte) ([]byte, error) { return h.Inner.Sign(message) }

func (h *HookSigner) GetPublic() (crypto.PubKey, error) {
	if f := h.OnGetPublic; f != nil {
		f()
	}
	return h.Inner.GetPublic()
}

func (h *HookSigner) GetAddress() ([]byte, error) { return h.Inner.GetAddress() }
