// Package world contains the recording doubles the drivers run the real node code against.
package world

import (
	"context"
	"crypto/sha256"
	"encoding/hex"
	"errors"
	"fmt"
	"sort"
	"sync"

	ds "github.com/ipfs/go-datastore"
	dsq "github.com/ipfs/go-datastore/query"
)

// ErrCrashed is returned by every datastore call after the simulated process died.
var ErrCrashed = errors.New("verif: process crashed (datastore gone)")

// WriteRec is one durable write as seen by the datastore: a Put, a Delete or one Batch.Commit.
type WriteRec struct {
	Seq  int      `json:"seq"`
	Op   string   `json:"op"` // put | delete | batch
	Keys []string `json:"keys"`
	Vals []string `json:"vals"` // sha256[:6] of each value ("-" for deletes); short values verbatim in hex
	Raw  [][]byte `json:"-"`
}

// Image is the durable key/value image shared by the successive "processes" of one node.
type Image struct {
	mu   sync.Mutex
	data map[string][]byte
}

// NewImage returns an empty image.
func NewImage() *Image { return &Image{data: map[string][]byte{}} }

// Clone copies the image.
func (im *Image) Clone() *Image {
	im.mu.Lock()
	defer im.mu.Unlock()
	c := NewImage()
	for k, v := range im.data {
		c.data[k] = append([]byte(nil), v...)
	}
	return c
}

// Snapshot returns a copy of the raw map.
func (im *Image) Snapshot() map[string][]byte {
	im.mu.Lock()
	defer im.mu.Unlock()
	c := make(map[string][]byte, len(im.data))
	for k, v := range im.data {
		c[k] = append([]byte(nil), v...)
	}
	return c
}

// Keys returns the sorted keys with the given prefix.
func (im *Image) Keys(prefix string) []string {
	im.mu.Lock()
	defer im.mu.Unlock()
	var out []string
	for k := range im.data {
		if len(k) >= len(prefix) && k[:len(prefix)] == prefix {
			out = append(out, k)
		}
	}
	sort.Strings(out)
	return out
}

// Get reads a raw key.
func (im *Image) Get(k string) ([]byte, bool) {
	im.mu.Lock()
	defer im.mu.Unlock()
	v, ok := im.data[k]
	return v, ok
}

// MemDS is an in-memory ds.Batching over an Image that logs durable writes and can
// "crash": after CrashAfter durable writes every further call fails and the image stays frozen.
type MemDS struct {
	im *Image

	mu         sync.Mutex
	log        []WriteRec
	writes     int
	crashAfter int // -1: never
	crashed    bool
	// FailWrites makes the next n durable writes fail transiently (without crashing).
	failAt     int // > 0: the failAt-th write from now fails once
	failWrites int
	// OnWrite, if set, is called (outside the lock) after every successful durable write.
	OnWrite func(WriteRec)
	// BeforeWrite, if set, is called (outside the lock) right before a durable write is applied, with the keys it is about to
	// write: a scenario can hold the writer at an instant at which everything it wrote before is visible and this write is not.
	BeforeWrite func(keys []string)
	// Yield, if set, is called at the start of every call (used to widen interleavings).
	Yield   func()
	KeepRaw bool
}

var _ ds.Batching = (*MemDS)(nil)

// NewMemDS opens a datastore "process" over an image.
func NewMemDS(im *Image) *MemDS { return &MemDS{im: im, crashAfter: -1} }

// Image returns the underlying durable image.
func (d *MemDS) Image() *Image { return d.im }

// CrashAfter arms the crash: n more durable writes succeed, everything after fails.
func (d *MemDS) CrashAfter(n int) {
	d.mu.Lock()
	d.crashAfter = d.writes + n
	d.mu.Unlock()
}

// CrashNow kills the datastore immediately.
func (d *MemDS) CrashNow() {
	d.mu.Lock()
	d.crashed = true
	d.mu.Unlock()
}

// Crashed reports whether the crash point was reached.
func (d *MemDS) Crashed() bool {
	d.mu.Lock()
	defer d.mu.Unlock()
	return d.crashed
}

// FailNextWrites makes the next n durable writes fail transiently.
func (d *MemDS) FailNextWrites(n int) {
	d.mu.Lock()
	d.failWrites = n
	d.mu.Unlock()
}

// FailWriteAt makes exactly the k-th durable write from now (k >= 1) fail transiently; the process survives it.
func (d *MemDS) FailWriteAt(k int) {
	d.mu.Lock()
	d.failAt = k
	d.mu.Unlock()
}

// Writes returns the number of durable writes so far.
func (d *MemDS) Writes() int {
	d.mu.Lock()
	defer d.mu.Unlock()
	return d.writes
}

// Log returns a copy of the write log.
func (d *MemDS) Log() []WriteRec {
	d.mu.Lock()
	defer d.mu.Unlock()
	return append([]WriteRec(nil), d.log...)
}

func valTag(v []byte) string {
	if v == nil {
		return "-"
	}
	if len(v) <= 8 {
		return hex.EncodeToString(v)
	}
	h := sha256.Sum256(v)
	return "#" + hex.EncodeToString(h[:6])
}

func (d *MemDS) enter() error {
	if d.Yield != nil {
		d.Yield()
	}
	d.mu.Lock()
	defer d.mu.Unlock()
	if d.crashed {
		return ErrCrashed
	}
	return nil
}

type kv struct {
	k   string
	v   []byte
	del bool
}

// apply performs one durable write (one or several keys atomically).
func (d *MemDS) apply(op string, items []kv) error {
	d.mu.Lock()
	if bw := d.BeforeWrite; bw != nil && !d.crashed {
		d.mu.Unlock()
		keys := make([]string, 0, len(items))
		for _, it := range items {
			keys = append(keys, it.k)
		}
		bw(keys)
		d.mu.Lock()
	}
	if d.crashed {
		d.mu.Unlock()
		return ErrCrashed
	}
	if d.crashAfter >= 0 && d.writes >= d.crashAfter {
		d.crashed = true
		d.mu.Unlock()
		return ErrCrashed
	}
	if d.failAt > 0 {
		d.failAt--
		if d.failAt == 0 {
			d.mu.Unlock()
			return errors.New("verif: transient datastore write error")
		}
	}
	if d.failWrites > 0 {
		d.failWrites--
		d.mu.Unlock()
		return errors.New("verif: transient datastore write error")
	}
	rec := WriteRec{Seq: d.writes, Op: op}
	d.im.mu.Lock()
	for _, it := range items {
		rec.Keys = append(rec.Keys, it.k)
		if it.del {
			delete(d.im.data, it.k)
			rec.Vals = append(rec.Vals, "-")
			if d.KeepRaw {
				rec.Raw = append(rec.Raw, nil)
			}
		} else {
			c := append([]byte{}, it.v...)
			d.im.data[it.k] = c
			rec.Vals = append(rec.Vals, valTag(c))
			if d.KeepRaw {
				rec.Raw = append(rec.Raw, c)
			}
		}
	}
	d.im.mu.Unlock()
	d.writes++
	d.log = append(d.log, rec)
	cb := d.OnWrite
	d.mu.Unlock()
	if cb != nil {
		cb(rec)
	}
	return nil
}

func (d *MemDS) Put(ctx context.Context, key ds.Key, value []byte) error {
	if err := d.enter(); err != nil {
		return err
	}
	return d.apply("put", []kv{{k: key.String(), v: value}})
}

func (d *MemDS) Delete(ctx context.Context, key ds.Key) error {
	if err := d.enter(); err != nil {
		return err
	}
	return d.apply("delete", []kv{{k: key.String(), del: true}})
}

func (d *MemDS) Get(ctx context.Context, key ds.Key) ([]byte, error) {
	if err := d.enter(); err != nil {
		return nil, err
	}
	d.im.mu.Lock()
	defer d.im.mu.Unlock()
	v, ok := d.im.data[key.String()]
	if !ok {
		return nil, ds.ErrNotFound
	}
	return append([]byte{}, v...), nil
}

func (d *MemDS) Has(ctx context.Context, key ds.Key) (bool, error) {
	if err := d.enter(); err != nil {
		return false, err
	}
	d.im.mu.Lock()
	defer d.im.mu.Unlock()
	_, ok := d.im.data[key.String()]
	return ok, nil
}

func (d *MemDS) GetSize(ctx context.Context, key ds.Key) (int, error) {
	if err := d.enter(); err != nil {
		return -1, err
	}
	d.im.mu.Lock()
	defer d.im.mu.Unlock()
	v, ok := d.im.data[key.String()]
	if !ok {
		return -1, ds.ErrNotFound
	}
	return len(v), nil
}

func (d *MemDS) Query(ctx context.Context, q dsq.Query) (dsq.Results, error) {
	if err := d.enter(); err != nil {
		return nil, err
	}
	d.im.mu.Lock()
	keys := make([]string, 0, len(d.im.data))
	for k := range d.im.data {
		keys = append(keys, k)
	}
	sort.Strings(keys)
	entries := make([]dsq.Entry, 0, len(keys))
	for _, k := range keys {
		v := d.im.data[k]
		e := dsq.Entry{Key: k, Size: len(v)}
		if !q.KeysOnly {
			e.Value = append([]byte{}, v...)
		}
		entries = append(entries, e)
	}
	d.im.mu.Unlock()
	return dsq.NaiveQueryApply(q, dsq.ResultsWithEntries(q, entries)), nil
}

func (d *MemDS) Sync(ctx context.Context, prefix ds.Key) error { return d.enter() }

func (d *MemDS) Close() error { return nil }

func (d *MemDS) Batch(ctx context.Context) (ds.Batch, error) {
	if err := d.enter(); err != nil {
		return nil, err
	}
	return &memBatch{d: d}, nil
}

type memBatch struct {
	d     *MemDS
	items []kv
	done  bool
}

func (b *memBatch) Put(ctx context.Context, key ds.Key, value []byte) error {
	b.items = append(b.items, kv{k: key.String(), v: append([]byte{}, value...)})
	return nil
}

func (b *memBatch) Delete(ctx context.Context, key ds.Key) error {
	b.items = append(b.items, kv{k: key.String(), del: true})
	return nil
}

func (b *memBatch) Commit(ctx context.Context) error {
	if err := b.d.enter(); err != nil {
		return err
	}
	if len(b.items) == 0 {
		return nil
	}
	items := b.items
	b.items = nil
	return b.d.apply("batch", items)
}

// FormatLog renders a write log compactly for witnesses.
func FormatLog(log []WriteRec) []string {
	out := make([]string, 0, len(log))
	for _, r := range log {
		out = append(out, fmt.Sprintf("%d %s %v=%v", r.Seq, r.Op, r.Keys, r.Vals))
	}
	return out
}
