package world

import (
	"context"
	"fmt"
	"github.com/evstack/ev-node/types"
	"os"
	"sync/atomic"
	"time"
)

// Action is one step of a delivery schedule to a full node.
type Action struct {
	Kind       string   `json:"k"`                      // ch-h | ch-d | da | p2p-h | p2p-d | restart | crash-restart
	I          int      `json:"i,omitempty"`            // block index (ch-*), or "up to index" (p2p-*)
	DA         []Item   `json:"da,omitempty"`           // blobs placed at the next DA height
	Junk       [][]byte `json:"-"`                      // third-party blobs placed with them
	JunkFirst  bool     `json:"-"`                      // third-party blobs come before the genuine ones within the DA height
	StopAtExec int      `json:"stop_at_exec,omitempty"` // ask the node to stop right after the n-th block application from now persisted its state (kind "da", NoBarrier)
	More       [][]Item `json:"more,omitempty"`         // further DA heights filled in the same action (kind "da")
	Gate       bool     `json:"gate,omitempty"`         // with StopAtExec: the first application of the action ends only when the scan has handed over everything
	NoBarrier  bool     `json:"nb,omitempty"`           // do not wait for the sync loop after this action (events may still be queued)
}

// Item names one genuine blob: header or data of block index I.
type Item struct {
	D bool `json:"d,omitempty"`
	I int  `json:"i"`
}

func (a Action) String() string {
	switch a.Kind {
	case "ch-h", "ch-d":
		return fmt.Sprintf("%s%d", a.Kind, a.I)
	case "p2p-h", "p2p-d", "p2p-h+", "p2p-d+":
		return fmt.Sprintf("%s<=%d", a.Kind, a.I)
	case "da":
		s := "da["
		if a.NoBarrier {
			s = "da!["
			if a.StopAtExec > 0 {
				s = fmt.Sprintf("da!stop@apply%d[", a.StopAtExec)
				if a.Gate {
					s = fmt.Sprintf("da!lagging,stop@apply%d[", a.StopAtExec)
				}
			}
		}
		for _, it := range a.DA {
			if it.D {
				s += fmt.Sprintf("d%d ", it.I)
			} else {
				s += fmt.Sprintf("h%d ", it.I)
			}
		}
		s += "]"
		for _, more := range a.More {
			s += "+["
			for _, it := range more {
				if it.D {
					s += fmt.Sprintf("d%d ", it.I)
				} else {
					s += fmt.Sprintf("h%d ", it.I)
				}
			}
			s += "]"
		}
		return s
	}
	return a.Kind
}

// FN is a full node (real non-aggregator Manager and its real loops) fed by a harness.
type FN struct {
	Ctx     context.Context
	P       *Produced
	Im      *Image
	Exec    *ExecDouble
	DA      *DADouble
	RootDir string
	N       *Node
	L       *Loops
	Logs    [][]WriteRec
	// what has been delivered so far (by block index)
	GotH, GotD []bool
	p2pH, p2pD int // next index to append to the P2P store doubles
	daNext     uint64
	loopNames  []string
	Restarts   int
	// Release is set by scenarios that stall a double; it lets the stalled calls continue.
	Release func()
	// slow makes every execution call take a moment, so that the sync loop lags behind the DA scan
	// ExecMarks: number of execution calls the double had received at each restart
	ExecMarks []int
	slow      atomic.Bool
	// gate (with slow): an execution call waits until the DA scan of the current action is idle (scanIdle)
	gate     atomic.Bool
	scanIdle atomic.Bool
	// stopAfterExecs > 0: the loops' context is cancelled when that many further execution calls have started
	stopAfterExecs atomic.Int64
	// DBPath: the node's configured db_path ("" = the repository's default). Set it in the prepare hook of NewFNPrepared.
	DBPath string
	// DABlockTime: the node's configured DA block time (0 = one hour: nothing in the node paces itself by it during a
	// scenario). Set it in the prepare hook of NewFNPrepared.
	DABlockTime time.Duration
	// PayloadHook: see NodeOpts.PayloadHook (chains with Spec.CustomPayload only). Set it in the prepare hook of NewFNPrepared.
	PayloadHook func(*types.Header)
}

// NewFN starts a full node for the produced chain. rootDir may be "" (no cache directory: clean restarts then lose the caches).
func NewFN(ctx context.Context, p *Produced, rootDir string) (*FN, error) {
	return NewFNPrepared(ctx, p, rootDir, nil)
}

// NewFNPrepared is NewFN with a hook that can arrange the doubles before the loops start.
func NewFNPrepared(ctx context.Context, p *Produced, rootDir string, prepare func(*FN)) (*FN, error) {
	f := &FN{Ctx: ctx, P: p, Im: NewImage(), Exec: NewExecDouble(), DA: NewDADouble(), RootDir: rootDir,
		GotH: make([]bool, len(p.Heights)), GotD: make([]bool, len(p.Heights)), daNext: 1,
		loopNames: []string{"sync", "retrieve", "headerStore", "dataStore", "daIncluder"}}
	f.DA.AutoAdvance = false
	f.Exec.Delay = func(kind string) {
		if kind == "exec" && f.slow.Load() {
			if f.gate.Load() {
				// the consumer lags as far as it can: the application in progress ends only when the scan has handed over
				// everything it found (bounded, in case the scan itself waits for the consumer)
				for i := 0; i < 2000 && !f.scanIdle.Load(); i++ {
					time.Sleep(100 * time.Microsecond)
				}
				return
			}
			time.Sleep(1500 * time.Microsecond)
		}

	}
	if prepare != nil {
		prepare(f)
	}
	if err := f.start(nil); err != nil {
		return nil, err
	}
	return f, nil
}

func (f *FN) start(reuse *Node) error {
	opts := NodeOpts{Aggregator: false, CustomPayload: f.P.Spec.CustomPayload, InitialHeight: f.P.Spec.Initial, DABlockTime: time.Hour, BlockTime: time.Hour, RootDir: f.RootDir, DAStartHeight: 1, DBPath: f.DBPath, PayloadHook: f.PayloadHook}
	if f.DABlockTime > 0 {
		opts.DABlockTime = f.DABlockTime
	}
	dsp := NewMemDS(f.Im)
	dsp.OnWrite = func(rec WriteRec) {
		// the stop request arrives right after the n-th application from now made its state durable
		for _, k := range rec.Keys {
			if k == "/s" && f.stopAfterExecs.Load() > 0 && f.stopAfterExecs.Add(-1) == 0 {
				f.L.Cancel()
			}
		}
	}
	n, err := NewNode(f.Ctx, opts, f.P.Keys, dsp, f.Exec, NewSeqDouble(), f.DA, reuse)
	if err != nil {
		return err
	}
	f.N = n
	f.L = StartLoops(f.Ctx, n, f.loopNames...)
	return nil
}

// Stop stops the loops and records the write log of this process.
func (f *FN) Stop() error {
	err := f.L.Stop()
	f.Logs = append(f.Logs, f.N.DS.Log())
	return err
}

// Restart stops the node and starts a new Manager on the same image. clean = caches saved first.
func (f *FN) Restart(clean bool) error {
	if err := f.Stop(); err != nil {
		return err
	}
	if clean && f.RootDir != "" {
		if err := f.N.M.SaveCache(); err != nil {
			return fmt.Errorf("SaveCache: %w", err)
		}
	}
	if !clean && f.RootDir != "" {
		if f.DBPath != "" {
			// wherever the node keeps its cache snapshots: nothing else lives under the root directory (the database is in memory)
			WipeDir(f.RootDir)
		} else {
			_ = os.RemoveAll(f.RootDir + "/data/cache")
		}
	}
	f.Restarts++
	f.ExecMarks = append(f.ExecMarks, len(f.Exec.Execs()))
	f.slow.Store(false)
	f.gate.Store(false)
	f.stopAfterExecs.Store(0)
	old := f.N
	return f.start(old)
}

// Do performs one action and waits until the node has completely handled it.
func (f *FN) Do(a Action) error {
	switch a.Kind {
	case "ch-h":
		f.L.SendHeader(f.P.Header(a.I), 0)
		f.GotH[a.I] = true
	case "ch-d":
		f.L.SendData(f.P.Data(a.I), 0)
		f.GotD[a.I] = true
	case "da":
		var blobs [][]byte
		for _, it := range a.DA {
			if it.D {
				if b := f.P.DataBlob[it.I]; b != nil {
					blobs = append(blobs, b)
				}
			} else {
				blobs = append(blobs, f.P.HeaderBlob[it.I])
			}
		}
		if a.JunkFirst {
			blobs = append(append([][]byte{}, a.Junk...), blobs...)
		} else {
			blobs = append(blobs, a.Junk...)
		}
		if a.NoBarrier {
			f.slow.Store(true) // the consumer lags: events pile up in the hand-off channels
			if a.StopAtExec > 0 {
				f.stopAfterExecs.Store(int64(a.StopAtExec))
				f.scanIdle.Store(false)
				f.gate.Store(a.Gate)
			}
		}
		h := f.daNext
		f.daNext++
		f.DA.Place(h, blobs...)
		all := append([]Item{}, a.DA...)
		for _, more := range a.More {
			var mb [][]byte
			for _, it := range more {
				if it.D {
					if b := f.P.DataBlob[it.I]; b != nil {
						mb = append(mb, b)
					}
				} else {
					mb = append(mb, f.P.HeaderBlob[it.I])
				}
			}
			h = f.daNext
			f.daNext++
			f.DA.Place(h, mb...)
			all = append(all, more...)
		}
		f.DA.SetHeight(h)
		if err := f.L.RetrieveUntilIdle(f.DA, h+1); err != nil {
			f.scanIdle.Store(true)
			return err
		}
		f.scanIdle.Store(true)
		for _, it := range all {
			if it.D {
				f.GotD[it.I] = true
			} else {
				f.GotH[it.I] = true
			}
		}
	case "p2p-h":
		for ; f.p2pH <= a.I && f.p2pH < len(f.P.Heights); f.p2pH++ {
			f.N.HStore.Add(f.P.Header(f.p2pH))
			f.GotH[f.p2pH] = true
		}
		if err := f.L.SignalBarrier("headerStore", "headerStore"); err != nil {
			return err
		}
	case "p2p-d":
		for ; f.p2pD <= a.I && f.p2pD < len(f.P.Heights); f.p2pD++ {
			f.N.DStore.Add(f.P.Data(f.p2pD))
			f.GotD[f.p2pD] = true
		}
		if err := f.L.SignalBarrier("dataStore", "dataStore"); err != nil {
			return err
		}
	case "p2p-h+", "p2p-d+":
		// the items reach the P2P stores and nothing ticks the store loops: what the node makes of them is up to its own
		// timers, or to a later tick - possibly after a restart
		if a.Kind == "p2p-h+" {
			for ; f.p2pH <= a.I && f.p2pH < len(f.P.Heights); f.p2pH++ {
				f.N.HStore.Add(f.P.Header(f.p2pH))
				f.GotH[f.p2pH] = true
			}
		} else {
			for ; f.p2pD <= a.I && f.p2pD < len(f.P.Heights); f.p2pD++ {
				f.N.DStore.Add(f.P.Data(f.p2pD))
				f.GotD[f.p2pD] = true
			}
		}
		return nil
	case "p2p-tick":
		if err := f.L.SignalBarrier("headerStore", "headerStore"); err != nil {
			return err
		}
		if err := f.L.SignalBarrier("dataStore", "dataStore"); err != nil {
			return err
		}
	case "scan":
		if err := f.L.RetrieveUntilIdle(f.DA, f.DA.Height()+1); err != nil {
			return err
		}
	case "include":
		return f.L.SignalBarrier("daIncluder", "daIncluder")
	case "restart":
		if err := f.Restart(true); err != nil {
			return err
		}
	case "crash-restart":
		if err := f.Restart(false); err != nil {
			return err
		}
	default:
		return fmt.Errorf("unknown action %q", a.Kind)
	}
	if a.NoBarrier {
		if a.StopAtExec > 0 {
			// the stop request is raised by the datastore hook when the n-th application persisted its state;
			// if fewer applications happen, the node is stopped once it has handled everything
			_ = poll(func() bool {
				return f.stopAfterExecs.Load() <= 0 || f.L.Exited("sync") ||
					(len(f.N.M.VerifHeaderInCh()) == 0 && len(f.N.M.VerifDataInCh()) == 0)
			})
			if f.stopAfterExecs.Load() > 0 && !f.L.Exited("sync") {
				_ = f.L.SyncBarrier()
			}
		}
		// the node is stopped cleanly right now, with whatever is still queued in its hand-off channels
		if err := f.Restart(true); err != nil {
			return err
		}
	}
	return f.L.SyncBarrier()
}

// Settle runs inclusion passes and a final barrier.
func (f *FN) Settle() error {
	if err := f.L.SyncBarrier(); err != nil {
		return err
	}
	return f.L.SignalBarrier("daIncluder", "daIncluder")
}

// HStar is the largest height h such that both parts of all blocks up to h have been delivered.
func (f *FN) HStar() uint64 {
	h := f.P.Spec.Initial - 1
	for i := range f.P.Heights {
		if !f.GotH[i] {
			break
		}
		if len(f.P.Txs[i]) > 0 && !f.GotD[i] {
			break
		}
		h = f.P.Heights[i]
	}
	return h
}

// AddForeignP2PHeader appends a header that is NOT the proposer's to the P2P header store double at the
// next position (a peer served it), lets the real store loop pick it up and waits for quiescence.
func (f *FN) AddForeignP2PHeader(h *types.SignedHeader) error {
	return f.AddP2PBatch(-1, h)
}

// AddP2PBatch appends the genuine headers up to index genuineUpTo (if they are not there yet) and then, if
// foreign is not nil, a header that is NOT the proposer's at the next position - all within one poll of the
// store loop (no tick in between) - then lets the loop run and waits for quiescence.
func (f *FN) AddP2PBatch(genuineUpTo int, foreign *types.SignedHeader) error {
	for ; f.p2pH <= genuineUpTo && f.p2pH < len(f.P.Heights); f.p2pH++ {
		f.N.HStore.Add(f.P.Header(f.p2pH))
		f.GotH[f.p2pH] = true
	}
	if foreign != nil {
		f.N.HStore.Add(foreign)
		f.p2pH++
	}
	return f.p2pHeaderTick()
}

// AddP2PForgedData puts a data item a peer made up into the next position of the P2P data store (no tick).
func (f *FN) AddP2PForgedData(d *types.Data) {
	f.N.DStore.Add(d)
	f.p2pD++
}

func (f *FN) p2pHeaderTick() error {
	if err := f.L.SignalBarrier("headerStore", "headerStore"); err != nil {
		return err
	}
	return f.L.SyncBarrier()
}

// P2PHeaderNext returns the index of the next header the P2P header store double expects.
func (f *FN) P2PHeaderNext() int { return f.p2pH }

// WipeDir removes everything inside dir and keeps dir itself.
func WipeDir(dir string) {
	ents, err := os.ReadDir(dir)
	if err != nil {
		return
	}
	for _, e := range ents {
		_ = os.RemoveAll(dir + "/" + e.Name())
	}
}
