package world

import (
	"context"
	"errors"
	"fmt"
	"runtime"
	"sync"
	"time"

	"github.com/evstack/ev-node/block"
	"github.com/evstack/ev-node/types"
)

// Watchdog is the generous wall-clock limit for barriers; its firing is inconclusive, never a violation.
var Watchdog = 20 * time.Second

// ErrWatchdog marks an inconclusive wait.
var ErrWatchdog = errors.New("verif: watchdog fired (inconclusive)")

// Loops runs real background loops of one Manager as goroutines and lets a driver advance them
// one event at a time.
type Loops struct {
	N       *Node
	ctx     context.Context
	cancel  context.CancelFunc
	wg      sync.WaitGroup
	ErrCh   chan error
	mu      sync.Mutex
	exited  map[string]bool
	syncErr error
	goids   map[string]uint64
}

// StartLoops starts the named loops: sync, retrieve, headerStore, dataStore, daIncluder.
func StartLoops(parent context.Context, n *Node, names ...string) *Loops {
	ctx, cancel := context.WithCancel(parent)
	l := &Loops{N: n, ctx: ctx, cancel: cancel, ErrCh: make(chan error, 8), exited: map[string]bool{}}
	for _, name := range names {
		name := name
		l.wg.Add(1)
		go func() {
			defer l.wg.Done()
			l.mu.Lock()
			if l.goids == nil {
				l.goids = map[string]uint64{}
			}
			l.goids[name] = GoID()
			l.mu.Unlock()
			switch name {
			case "sync":
				n.M.SyncLoop(ctx, l.ErrCh)
			case "retrieve":
				n.M.RetrieveLoop(ctx)
			case "headerStore":
				n.M.HeaderStoreRetrieveLoop(ctx)
			case "dataStore":
				n.M.DataStoreRetrieveLoop(ctx)
			case "daIncluder":
				n.M.DAIncluderLoop(ctx, l.ErrCh)
			case "aggregation":
				n.M.AggregationLoop(ctx, l.ErrCh)
			case "headerSubmit":
				n.M.HeaderSubmissionLoop(ctx)
			case "dataSubmit":
				n.M.DataSubmissionLoop(ctx)
			default:
				panic("unknown loop " + name)
			}
			l.mu.Lock()
			l.exited[name] = true
			l.mu.Unlock()
		}()
	}
	return l
}

// GoID returns the id of the goroutine a loop runs on (0 until the loop's goroutine has started). A loop that hands work
// to goroutines of its own is more than this one goroutine; scenarios that park "the loop" park this one.
func (l *Loops) GoID(name string) uint64 {
	l.mu.Lock()
	defer l.mu.Unlock()
	return l.goids[name]
}

// GoID returns the id of the calling goroutine (parsed from its stack header: harness-side only).
func GoID() uint64 {
	var buf [64]byte
	n := runtime.Stack(buf[:], false)
	// "goroutine 123 [running]:"
	var id uint64
	for _, ch := range buf[len("goroutine "):n] {
		if ch < '0' || ch > '9' {
			break
		}
		id = id*10 + uint64(ch-'0')
	}
	return id
}

// Exited reports whether a loop returned (before Stop).
func (l *Loops) Exited(name string) bool {
	l.mu.Lock()
	defer l.mu.Unlock()
	return l.exited[name]
}

// LoopErr returns an error a loop reported on the error channel, if any (sticky).
func (l *Loops) LoopErr() error {
	l.mu.Lock()
	defer l.mu.Unlock()
	if l.syncErr != nil {
		return l.syncErr
	}
	select {
	case err := <-l.ErrCh:
		l.syncErr = err
	default:
	}
	return l.syncErr
}

// Cancel requests the loops to stop without waiting for them.
func (l *Loops) Cancel() { l.cancel() }

// Stop cancels and joins the loops. It returns ErrWatchdog if they do not return in time.
func (l *Loops) Stop() error {
	l.cancel()
	done := make(chan struct{})
	go func() { l.wg.Wait(); close(done) }()
	select {
	case <-done:
		return nil
	case <-time.After(Watchdog):
		return ErrWatchdog
	}
}

func poll(cond func() bool) error {
	deadline := time.Now().Add(Watchdog)
	for i := 0; ; i++ {
		if cond() {
			return nil
		}
		if time.Now().After(deadline) {
			return ErrWatchdog
		}
		if i < 200 {
			// busy-ish wait first: barriers are usually satisfied within microseconds
			time.Sleep(20 * time.Microsecond)
		} else {
			time.Sleep(500 * time.Microsecond)
		}
	}
}

// SyncBarrier returns when SyncLoop has completely handled every event sent before the call.
// If the loop terminated it returns the loop's error.
func (l *Loops) SyncBarrier() error {
	m := l.N.M
	hc, dc := m.VerifHeaderInCh(), m.VerifDataInCh()
	dead := func() bool { return l.Exited("sync") }
	if err := poll(func() bool { return dead() || (len(hc) == 0 && len(dc) == 0) }); err != nil {
		return err
	}
	if dead() {
		return l.deadErr()
	}
	// the sentinel is discarded at once by the loop (no transactions), but it can only be
	// taken after the event taken before it has been handled completely
	dc <- block.NewDataEvent{Data: &types.Data{Metadata: &types.Metadata{}}, DAHeight: 0}
	if err := poll(func() bool { return dead() || len(dc) == 0 }); err != nil {
		return err
	}
	// one more round: the loop may have popped the sentinel while still inside the handler? No -
	// a single goroutine pops only after finishing. A second sentinel makes sure the first was discarded.
	dc <- block.NewDataEvent{Data: &types.Data{Metadata: &types.Metadata{}}, DAHeight: 0}
	if err := poll(func() bool { return dead() || len(dc) == 0 }); err != nil {
		return err
	}
	if dead() {
		return l.deadErr()
	}
	return nil
}

func (l *Loops) deadErr() error {
	if err := l.LoopErr(); err != nil {
		return fmt.Errorf("sync loop terminated: %w", err)
	}
	return errors.New("sync loop terminated")
}

// SendHeader injects a header event directly.
func (l *Loops) SendHeader(h *types.SignedHeader, daHeight uint64) {
	l.N.M.VerifHeaderInCh() <- block.NewHeaderEvent{Header: h, DAHeight: daHeight}
}

// SendData injects a data event directly.
func (l *Loops) SendData(d *types.Data, daHeight uint64) {
	l.N.M.VerifDataInCh() <- block.NewDataEvent{Data: d, DAHeight: daHeight}
}

// SignalBarrier ticks a signal-driven loop and waits until two consecutive ticks were consumed,
// which proves one full pass finished after the first tick.
func (l *Loops) SignalBarrier(kind, loop string) error {
	m := l.N.M
	dead := func() bool { return l.Exited(loop) }
	for i := 0; i < 2; i++ {
		if err := poll(func() bool { return dead() || m.VerifSignalLen(kind) == 0 }); err != nil {
			return err
		}
		if dead() {
			return fmt.Errorf("%s loop terminated: %v", loop, l.LoopErr())
		}
		m.VerifSignal(kind)
	}
	if err := poll(func() bool { return dead() || m.VerifSignalLen(kind) == 0 }); err != nil {
		return err
	}
	// the second tick was taken: the pass started by the first tick is complete; the pass for the
	// second tick may still be running, so tick once more and wait for that to be taken as well
	m.VerifSignal(kind)
	if err := poll(func() bool { return dead() || m.VerifSignalLen(kind) == 0 }); err != nil {
		return err
	}
	if dead() {
		return fmt.Errorf("%s loop terminated: %v", loop, l.LoopErr())
	}
	return nil
}

// RetrieveUntilIdle ticks the DA scan and waits until it was told "from the future" for height want
// (the scan has examined everything below want).
func (l *Loops) RetrieveUntilIdle(da *DADouble, want uint64) error {
	m := l.N.M
	start := da.FutureAnswers(want)
	m.VerifSignal("retrieve")
	return poll(func() bool {
		if l.Exited("retrieve") {
			return true
		}
		if da.FutureAnswers(want) > start {
			return true
		}
		m.VerifSignal("retrieve")
		return false
	})
}
