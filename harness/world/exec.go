package world

import (
	"bytes"
	"context"
	"crypto/sha256"
	"encoding/binary"
	"errors"
	"fmt"
	"sync"
	"sync/atomic"
	"time"
)

// ExecCall is one call received by the execution double.
type ExecCall struct {
	Seq      int
	Kind     string // init | exec | final | gettxs
	Height   uint64
	Txs      [][]byte
	PrevRoot []byte
	Root     []byte
	Err      string
	TimeNano int64
}

// ExecOutcome scripts the result of one ExecuteTxs call.
type ExecOutcome int

const (
	ExecOK ExecOutcome = iota
	ExecErr
	ExecCtxCancelled
)

// ExecDouble is an execution layer obeying the documented contract: GetTxs does not remove,
// executed transactions leave the mempool; the state root is H(prevRoot || txs).
// It models an external process: it survives restarts of the node.
type ExecDouble struct {
	mu        sync.Mutex
	calls     []ExecCall
	mempool   [][]byte
	script    []ExecOutcome // consumed one per ExecuteTxs call; empty = OK
	finalErr  int           // next n SetFinal calls fail
	Delay     func(kind string)
	initRoot  []byte
	taken     [][]byte // every tx ever returned by GetTxs (first occurrence order)
	takenSet  map[string]bool
	GetTxsErr int
	// OnFinal, if set, is called at the start of every SetFinal call (before it is logged).
	OnFinal func(height uint64)
	// CallDelay makes ExecuteTxs and SetFinal take that long (a remote execution client); a call whose context
	// is cancelled meanwhile is aborted with AbortErr (default: the context's error) - remote clients surface
	// transport-style errors there, not Go's context errors.
	CallDelay time.Duration
	AbortErr  error
	// Stateful makes the double behave like an execution layer with its own durable state (as the reference KV
	// executor): the returned root is the root of everything it has ever executed, in first-execution order, not a
	// function of the prevStateRoot argument; executing the same (height, txs) again is idempotent.
	Stateful  bool
	stCur     []byte
	stByBlock map[string][]byte
	// blockCalls makes every ExecuteTxs / SetFinal call wait until its context ends (see BlockCalls)
	blockCalls   atomic.Bool
	blockFinal   atomic.Bool
	inFlightExec atomic.Int64
	inFlightFin  atomic.Int64
	inFlightGet  atomic.Int64
	// RootFn, if set, replaces RootAfter as the state root a successful ExecuteTxs returns (not used with Stateful). It
	// must be a function of its arguments (an execution layer is deterministic); it may return nil or an empty slice:
	// the interface does not promise a root of any particular length.
	RootFn func(height uint64, prevRoot []byte, txs [][]byte) []byte
	// SlowExec, if set, is how long ExecuteTxs takes for a block of that height (every time it is executed: the cost of
	// a block is a property of the block). Like CallDelay the wait honours the context: a call whose context ends first
	// is aborted with AbortErr (default: the context's error). Set it before the node starts.
	SlowExec    func(height uint64) time.Duration
	slowAborted atomic.Int64
	slowDone    atomic.Int64
}

// SlowExecCounts returns how many SlowExec waits were cut short by their context and how many ran to their end.
func (e *ExecDouble) SlowExecCounts() (aborted, completed int64) {
	return e.slowAborted.Load(), e.slowDone.Load()
}

// InFlightGetTxs returns how many GetTxs calls are currently waiting inside the double.
func (e *ExecDouble) InFlightGetTxs() int64 { return e.inFlightGet.Load() }

// BlockCalls switches the "remote client hangs until the caller gives up" mode on or off.
func (e *ExecDouble) BlockCalls(on bool) { e.blockCalls.Store(on) }

// BlockFinal makes only SetFinal calls hang until their context ends.
func (e *ExecDouble) BlockFinal(on bool) { e.blockFinal.Store(on) }

// InFlight returns how many ExecuteTxs and SetFinal calls are currently waiting inside the double.
func (e *ExecDouble) InFlight() (exec, final int64) {
	return e.inFlightExec.Load(), e.inFlightFin.Load()
}

// slowCall waits CallDelay; it returns the abort error if the context ends first.
func (e *ExecDouble) slowCall(ctx context.Context, final bool) error {
	ctr := &e.inFlightExec
	if final {
		ctr = &e.inFlightFin
	}
	ctr.Add(1)
	defer ctr.Add(-1)
	var wait <-chan time.Time
	switch {
	case e.blockCalls.Load() || (final && e.blockFinal.Load()):
		wait = nil // only the context ends the call
	case e.CallDelay <= 0:
		return nil
	default:
		wait = time.After(e.CallDelay)
	}
	select {
	case <-wait:
		return nil
	case <-ctx.Done():
		if e.AbortErr != nil {
			return e.AbortErr
		}
		return ctx.Err()
	}
}

// NewExecDouble creates an execution double.
func NewExecDouble() *ExecDouble {
	return &ExecDouble{takenSet: map[string]bool{}}
}

// RootAfter computes the reference root the double returns for (prevRoot, txs).
func RootAfter(prev []byte, txs [][]byte) []byte {
	h := sha256.New()
	h.Write([]byte("root"))
	h.Write(prev)
	var l [8]byte
	binary.BigEndian.PutUint64(l[:], uint64(len(txs)))
	h.Write(l[:])
	for _, tx := range txs {
		binary.BigEndian.PutUint64(l[:], uint64(len(tx)))
		h.Write(l[:])
		h.Write(tx)
	}
	return h.Sum(nil)
}

// InitRoot is the root InitChain returns for a chain.
func InitRoot(chainID string, initialHeight uint64) []byte {
	h := sha256.Sum256([]byte(fmt.Sprintf("init|%s|%d", chainID, initialHeight)))
	return h[:]
}

func (e *ExecDouble) delay(kind string) {
	if e.Delay != nil {
		e.Delay(kind)
	}
}

func (e *ExecDouble) InitChain(ctx context.Context, genesisTime time.Time, initialHeight uint64, chainID string) ([]byte, uint64, error) {
	e.delay("init")
	e.mu.Lock()
	defer e.mu.Unlock()
	root := InitRoot(chainID, initialHeight)
	e.initRoot = root
	e.calls = append(e.calls, ExecCall{Seq: len(e.calls), Kind: "init", Height: initialHeight, Root: root})
	return root, 1 << 20, nil
}

func (e *ExecDouble) GetTxs(ctx context.Context) ([][]byte, error) {
	e.delay("gettxs")
	if e.blockCalls.Load() {
		// the remote client hangs: only the caller's context ends the call
		e.inFlightGet.Add(1)
		<-ctx.Done()
		e.inFlightGet.Add(-1)
		if e.AbortErr != nil {
			return nil, e.AbortErr
		}
		return nil, ctx.Err()
	}
	e.mu.Lock()
	defer e.mu.Unlock()
	if e.GetTxsErr > 0 {
		e.GetTxsErr--
		return nil, errors.New("verif: mempool unavailable")
	}
	out := make([][]byte, len(e.mempool))
	for i, tx := range e.mempool {
		out[i] = append([]byte{}, tx...)
		if !e.takenSet[string(tx)] {
			e.takenSet[string(tx)] = true
			e.taken = append(e.taken, append([]byte{}, tx...))
		}
	}
	return out, nil
}

func (e *ExecDouble) ExecuteTxs(ctx context.Context, txs [][]byte, blockHeight uint64, timestamp time.Time, prevStateRoot []byte) ([]byte, uint64, error) {
	e.delay("exec")
	if err := e.slowCall(ctx, false); err != nil {
		return nil, 0, err
	}
	if e.SlowExec != nil {
		if d := e.SlowExec(blockHeight); d > 0 {
			select {
			case <-time.After(d):
			case <-ctx.Done():
			}
			// (a context that has ended by the time the work is done counts as ended first: on a loaded machine both may be
			// due when this goroutine runs again, and which one it is must not depend on that)
			if ctx.Err() != nil {
				e.slowAborted.Add(1)
				if e.AbortErr != nil {
					return nil, 0, e.AbortErr
				}
				return nil, 0, ctx.Err()
			}
			e.slowDone.Add(1)
		}
	}
	e.mu.Lock()
	defer e.mu.Unlock()
	call := ExecCall{Seq: len(e.calls), Kind: "exec", Height: blockHeight, PrevRoot: append([]byte{}, prevStateRoot...), TimeNano: timestamp.UnixNano()}
	for _, tx := range txs {
		call.Txs = append(call.Txs, append([]byte{}, tx...))
	}
	outcome := ExecOK
	if len(e.script) > 0 {
		outcome = e.script[0]
		e.script = e.script[1:]
	}
	if ctx.Err() != nil {
		outcome = ExecCtxCancelled
	}
	switch outcome {
	case ExecErr:
		call.Err = "verif: scripted execution error"
		e.calls = append(e.calls, call)
		return nil, 0, errors.New(call.Err)
	case ExecCtxCancelled:
		call.Err = context.Canceled.Error()
		e.calls = append(e.calls, call)
		return nil, 0, context.Canceled
	}
	root := RootAfter(prevStateRoot, txs)
	if e.RootFn != nil {
		root = e.RootFn(blockHeight, prevStateRoot, txs)
	}
	if e.Stateful {
		if e.stByBlock == nil {
			e.stByBlock = map[string][]byte{}
			e.stCur = e.initRoot
		}
		key := fmt.Sprintf("%d/%x", blockHeight, RootAfter(nil, txs))
		if prev, ok := e.stByBlock[key]; ok {
			root = prev
		} else {
			e.stCur = RootAfter(e.stCur, txs)
			e.stByBlock[key] = e.stCur
			root = e.stCur
		}
	}
	call.Root = root
	e.calls = append(e.calls, call)
	// executed transactions leave the mempool
	if len(e.mempool) > 0 {
		keep := e.mempool[:0]
		for _, m := range e.mempool {
			drop := false
			for _, tx := range txs {
				if bytes.Equal(m, tx) {
					drop = true
					break
				}
			}
			if !drop {
				keep = append(keep, m)
			}
		}
		e.mempool = keep
	}
	return root, 1 << 20, nil
}

func (e *ExecDouble) SetFinal(ctx context.Context, blockHeight uint64) error {
	e.delay("final")
	if e.OnFinal != nil {
		e.OnFinal(blockHeight)
	}
	if err := e.slowCall(ctx, true); err != nil {
		return err
	}
	e.mu.Lock()
	defer e.mu.Unlock()
	call := ExecCall{Seq: len(e.calls), Kind: "final", Height: blockHeight}
	if e.finalErr > 0 {
		e.finalErr--
		call.Err = "verif: scripted SetFinal error"
		e.calls = append(e.calls, call)
		return errors.New(call.Err)
	}
	e.calls = append(e.calls, call)
	return nil
}

// Script appends scripted ExecuteTxs outcomes.
func (e *ExecDouble) Script(o ...ExecOutcome) {
	e.mu.Lock()
	e.script = append(e.script, o...)
	e.mu.Unlock()
}

// ScriptLen returns how many scripted ExecuteTxs outcomes are still unconsumed.
func (e *ExecDouble) ScriptLen() int {
	e.mu.Lock()
	defer e.mu.Unlock()
	return len(e.script)
}

// ClearScript drops remaining scripted outcomes.
func (e *ExecDouble) ClearScript() {
	e.mu.Lock()
	e.script = nil
	e.mu.Unlock()
}

// FailNextFinal makes the next n SetFinal calls fail.
func (e *ExecDouble) FailNextFinal(n int) {
	e.mu.Lock()
	e.finalErr = n
	e.mu.Unlock()
}

// Inject adds transactions to the mempool.
func (e *ExecDouble) Inject(txs ...[]byte) {
	e.mu.Lock()
	for _, tx := range txs {
		e.mempool = append(e.mempool, append([]byte{}, tx...))
	}
	e.mu.Unlock()
}

// MempoolLen returns the number of mempool entries.
func (e *ExecDouble) MempoolLen() int {
	e.mu.Lock()
	defer e.mu.Unlock()
	return len(e.mempool)
}

// Taken returns every distinct tx ever handed out by GetTxs.
func (e *ExecDouble) Taken() [][]byte {
	e.mu.Lock()
	defer e.mu.Unlock()
	return append([][]byte(nil), e.taken...)
}

// Calls returns a copy of the call log.
func (e *ExecDouble) Calls() []ExecCall {
	e.mu.Lock()
	defer e.mu.Unlock()
	return append([]ExecCall(nil), e.calls...)
}

// Execs returns the successful ExecuteTxs calls.
func (e *ExecDouble) Execs() []ExecCall {
	var out []ExecCall
	for _, c := range e.Calls() {
		if c.Kind == "exec" {
			out = append(out, c)
		}
	}
	return out
}

// Finals returns the heights of successful SetFinal calls in order.
func (e *ExecDouble) Finals() []uint64 {
	var out []uint64
	for _, c := range e.Calls() {
		if c.Kind == "final" && c.Err == "" {
			out = append(out, c.Height)
		}
	}
	return out
}
