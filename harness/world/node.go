package world

import (
	"context"
	"crypto/ed25519"
	"crypto/sha256"
	"fmt"
	"os"
	"sync/atomic"
	"time"

	logging "github.com/ipfs/go-log/v2"
	"github.com/libp2p/go-libp2p/core/crypto"

	"github.com/evstack/ev-node/block"
	coreda "github.com/evstack/ev-node/core/da"
	coreexecutor "github.com/evstack/ev-node/core/execution"
	coresequencer "github.com/evstack/ev-node/core/sequencer"
	"github.com/evstack/ev-node/pkg/config"
	"github.com/evstack/ev-node/pkg/genesis"
	"github.com/evstack/ev-node/pkg/signer"
	"github.com/evstack/ev-node/pkg/signer/noop"
	"github.com/evstack/ev-node/pkg/store"
	"github.com/evstack/ev-node/types"
)

// Keys is a deterministic ed25519 key pair.
type Keys struct {
	Priv   crypto.PrivKey
	Pub    crypto.PubKey
	Signer signer.Signer
	Addr   []byte
}

// NewKeys derives a key pair from a label (deterministic).
func NewKeys(label string) Keys {
	seed := sha256.Sum256([]byte("verif-key-" + label))
	std := ed25519.NewKeyFromSeed(seed[:])
	priv, err := crypto.UnmarshalEd25519PrivateKey(std)
	if err != nil {
		panic(err)
	}
	s, err := noop.NewNoopSigner(priv)
	if err != nil {
		panic(err)
	}
	raw, _ := priv.GetPublic().Raw()
	a := sha256.Sum256(raw)
	return Keys{Priv: priv, Pub: priv.GetPublic(), Signer: s, Addr: a[:]}
}

// GenesisTime is the fixed genesis time of all worlds (in the past).
var GenesisTime = time.Unix(1_700_000_000, 0).UTC()

// Silence switches all node logging off (once per process).
func Silence() {
	logging.SetupLogging(logging.Config{Format: logging.PlaintextOutput, Stderr: false, File: os.DevNull, Level: logging.LevelFatal})
	logging.SetAllLoggers(logging.LevelFatal)
}

// NodeOpts configures one manager instance.
type NodeOpts struct {
	ChainID       string
	InitialHeight uint64
	Aggregator    bool
	Lazy          bool
	MaxPending    uint64
	BlockTime     time.Duration
	DABlockTime   time.Duration
	LazyInterval  time.Duration
	MempoolTTL    uint64
	// CustomPayload: the chain signs headers over a payload of its own (ManagerOptions.SignaturePayloadProvider)
	CustomPayload bool
	// PayloadHook (with CustomPayload): called at the start of every call of the node's signature payload provider - that
	// is, inside every signature check the node makes on a header - with the header under examination. A scenario can hold
	// one goroutine of the node there (the provider is the only code of the harness that runs inside a signature check).
	PayloadHook   func(*types.Header)
	DAStartHeight uint64
	RootDir       string
	GenesisTime   time.Time
	// DBPath: the configured db_path (relative to RootDir); "" leaves the default of the repository's config
	DBPath string
	// PrometheusNamespace: when not empty the Manager is built with real Prometheus metrics, the way node/ builds them
	// with instrumentation.prometheus on (block.PrometheusMetrics(namespace, "chain_id", chainID)), instead of the
	// no-op metrics. The collectors register on the process-wide default registry: the namespace must be unique
	// within the process (see UniquePrometheusNamespace).
	PrometheusNamespace string
}

var promSeq atomic.Int64

// UniquePrometheusNamespace returns a metrics namespace no other call in this process returned.
func UniquePrometheusNamespace() string {
	return fmt.Sprintf("verif_%d_%d", os.Getpid(), promSeq.Add(1))
}

// Node bundles a real Manager with the doubles it runs against.
type Node struct {
	Opts    NodeOpts
	Keys    Keys
	Genesis genesis.Genesis
	Cfg     config.Config
	DS      *MemDS
	Store   store.Store
	Exec    coreexecutor.Executor
	Seq     coresequencer.Sequencer
	DA      coreda.DA
	M       *block.Manager
	HB      *Broadcaster[*types.SignedHeader]
	DB      *Broadcaster[*types.Data]
	HStore  *P2PStore[*types.SignedHeader]
	DStore  *P2PStore[*types.Data]
}

// MakeGenesis builds the genesis for a proposer.
func MakeGenesis(chainID string, initial uint64, k Keys, t time.Time) genesis.Genesis {
	return genesis.NewGenesis(chainID, initial, t, k.Addr)
}

// NewNode constructs a real block.Manager over the given datastore process and doubles.
// The P2P stores and broadcasters are created fresh unless provided in reuse.
func NewNode(ctx context.Context, o NodeOpts, k Keys, dsp *MemDS, exec coreexecutor.Executor, seq coresequencer.Sequencer, da coreda.DA, reuse *Node) (*Node, error) {
	if o.ChainID == "" {
		o.ChainID = "verif-chain"
	}
	if o.InitialHeight == 0 {
		o.InitialHeight = 1
	}
	if o.BlockTime == 0 {
		o.BlockTime = time.Hour
	}
	if o.DABlockTime == 0 {
		o.DABlockTime = time.Millisecond
	}
	if o.LazyInterval == 0 {
		o.LazyInterval = time.Hour
	}
	if o.MempoolTTL == 0 {
		o.MempoolTTL = 1
	}
	if o.GenesisTime.IsZero() {
		o.GenesisTime = GenesisTime
	}
	cfg := config.DefaultConfig
	cfg.RootDir = o.RootDir
	if o.DBPath != "" {
		cfg.DBPath = o.DBPath
	}
	cfg.Node.Aggregator = o.Aggregator
	cfg.Node.LazyMode = o.Lazy
	cfg.Node.MaxPendingHeadersAndData = o.MaxPending
	cfg.Node.BlockTime.Duration = o.BlockTime
	cfg.Node.LazyBlockInterval.Duration = o.LazyInterval
	cfg.DA.BlockTime.Duration = o.DABlockTime
	cfg.DA.MempoolTTL = o.MempoolTTL
	cfg.DA.StartHeight = o.DAStartHeight
	gen := MakeGenesis(o.ChainID, o.InitialHeight, k, o.GenesisTime)
	n := &Node{Opts: o, Keys: k, Genesis: gen, Cfg: cfg, DS: dsp, Exec: exec, Seq: seq, DA: da}
	n.Store = store.New(dsp)
	if reuse != nil {
		n.HB, n.DB, n.HStore, n.DStore = reuse.HB, reuse.DB, reuse.HStore, reuse.DStore
	} else {
		n.HB = &Broadcaster[*types.SignedHeader]{}
		n.DB = &Broadcaster[*types.Data]{}
		n.HStore = NewP2PStore[*types.SignedHeader](o.InitialHeight)
		n.DStore = NewP2PStore[*types.Data](o.InitialHeight)
	}
	var sg signer.Signer
	if o.Aggregator {
		sg = k.Signer
	}
	mopts := block.DefaultManagerOptions()
	if o.CustomPayload {
		mopts.SignaturePayloadProvider = CustomSignaturePayload
		if hook := o.PayloadHook; hook != nil {
			mopts.SignaturePayloadProvider = func(h *types.Header) ([]byte, error) {
				hook(h)
				return CustomSignaturePayload(h)
			}
		}
	}
	metrics := block.NopMetrics()
	if o.PrometheusNamespace != "" {
		metrics = block.PrometheusMetrics(o.PrometheusNamespace, "chain_id", o.ChainID)
	}
	m, err := block.NewManager(ctx, sg, cfg, gen, n.Store, exec, seq, da, logging.Logger("verif"),
		n.HStore, n.DStore, n.HB, n.DB, metrics, 1.0, 1.5, mopts)
	if err != nil {
		return nil, err
	}
	n.M = m
	return n, nil
}

// TempDir creates a scratch directory under /verif/out/tmp (never /tmp).
func TempDir(root, pattern string) string {
	base := root + "/out/tmp"
	_ = os.MkdirAll(base, 0o755)
	d, err := os.MkdirTemp(base, pattern)
	if err != nil {
		panic(fmt.Sprintf("tempdir: %v", err))
	}
	return d
}

// EventChannelCapacity is the capacity of the manager's header/data event channels.
func EventChannelCapacity() int { return block.VerifEventInChLength() }

// CustomSignaturePayload is a non-default signature payload: a tag plus the header's encoding.
func CustomSignaturePayload(h *types.Header) ([]byte, error) {
	b, err := h.MarshalBinary()
	if err != nil {
		return nil, err
	}
	return append([]byte("verif-custom-payload|"), b...), nil
}
