package world

import (
	"context"
	"crypto/sha256"
	"encoding/binary"
	"errors"
	"fmt"
	"sync"
	"sync/atomic"
	"time"

	coreda "github.com/evstack/ev-node/core/da"
)

// SubmitOutcome scripts one answer of the DA double to a submission.
type SubmitOutcome struct {
	Kind   string // accept | prefix | timeout | mempool | toobig | error | acklost | cancelled | cancelledda | block | deadline | seqerr
	Prefix int    // for "prefix": how many blobs are accepted (clamped to [1,len-1] when possible)
}

func (o SubmitOutcome) String() string {
	if o.Kind == "prefix" {
		return fmt.Sprintf("prefix%d", o.Prefix)
	}
	return o.Kind
}

// RetrieveOutcome scripts one answer to a GetIDs(+Get) for a height.
type RetrieveOutcome struct {
	// Kind: ok | notfound | future | listerr | chunkerr | emptylist | nilresult.
	// "emptylist" and "nilresult" are the two other ways in which a DA implementation says "this height holds
	// nothing": the listing succeeds with an empty id list (core/da DummyDA) or with a nil result (local-da).
	Kind  string
	Chunk int // for chunkerr: index of the Get call (0-based) that fails
	// ErrVariant selects the identity of the error returned for listerr / chunkerr (see RetrieveErr).
	ErrVariant int
}

// RetrieveErrVariants is the number of transient error identities RetrieveErr knows.
const RetrieveErrVariants = 7

// RetrieveErrVariantsAll additionally counts the identities that only make sense for a chunk fetch (Get):
// a listed id that is not retrievable (yet), reported with the DA interface's not-found / from-the-future
// sentinels (variants RetrieveErrVariants .. RetrieveErrVariantsAll-1).
const RetrieveErrVariantsAll = 11

// RetrieveErr returns the v-th kind of transient retrieval error a DA client can surface.
func RetrieveErr(v int, what string) error {
	if v >= RetrieveErrVariants && v < RetrieveErrVariantsAll {
		switch v {
		case 7:
			return fmt.Errorf("da double: %s: %w", what, coreda.ErrBlobNotFound)
		case 8:
			return fmt.Errorf("da double: %s: %w", what, coreda.ErrHeightFromFuture)
		case 9:
			return coreda.ErrBlobNotFound
		default:
			return errors.New("rpc error: " + what + ": " + coreda.ErrHeightFromFuture.Error())
		}
	}
	switch v % RetrieveErrVariants {
	case 1:
		return fmt.Errorf("da double: %s: %w", what, context.DeadlineExceeded)
	case 2:
		return fmt.Errorf("da double: %s: %w", what, coreda.ErrContextDeadline)
	case 3:
		return fmt.Errorf("da double: %s: %w", what, coreda.ErrTxTimedOut)
	case 4:
		return context.DeadlineExceeded
	case 5:
		return fmt.Errorf("rpc error: %s: connection refused", what)
	case 6:
		return fmt.Errorf("da double: %s: %w", what, coreda.ErrBlobSizeOverLimit)
	}
	return errors.New("da double: " + what + " failed")
}

// DACall is one call received by the DA double.
type DACall struct {
	Seq     int
	Kind    string // submit | getids | get
	Height  uint64 // submit: height the blobs were placed at (0 if none); getids: requested
	Blobs   [][]byte
	Stored  int // submit: blobs actually stored
	Acked   int // submit: ids returned to caller
	Outcome string
	Err     string
	NIDs    int
}

// DADouble is a deterministic DA layer with explicit heights.
type DADouble struct {
	mu       sync.Mutex
	cur      uint64 // current (highest produced) DA height
	byHeight map[uint64][][]byte
	ids      map[string][]byte
	calls    []DACall
	ctxDone  map[uint64]int
	subScr   []SubmitOutcome
	defSub   SubmitOutcome // outcome when the script is exhausted ("" = accept)
	retScr   map[uint64][]RetrieveOutcome
	getCount map[uint64]int // Get calls since last GetIDs per height
	lastList uint64
	// AutoAdvance: every accepted submission is placed at cur+1 and cur advances.
	AutoAdvance bool
	MaxBlob     int
	Delay       func(kind string)
	futureSeen  map[uint64]int // how many times "future" was answered for a height
	// BlockRetrieve makes every GetIDs call hang until its context ends (a DA client that does not answer)
	BlockRetrieve    atomic.Bool
	retrieveInFlight atomic.Int64
	idleCh           chan uint64
	nonce            uint64
	// EmptyAs is how a produced height without blobs answers a listing: "" / "notfound" = ErrBlobNotFound
	// (default), "emptylist" = success with an empty id list, "nilresult" = (nil, nil).
	EmptyAs   string
	emptyAsAt map[uint64]string // per-height override of EmptyAs
	// ConfirmLatency (nanoseconds; 0 = none): every submission is answered only after this long - a busy DA layer that
	// confirms a blob a few DA blocks after it was sent. The wait honours the caller's context: a caller that gives up
	// first gets its context's error and nothing of that submission is stored.
	ConfirmLatency atomic.Int64
	// ContentIDs (set before anything is placed): ids are derived from the content alone, id = height (8 bytes LE) +
	// sha256(blob), as the repository's DummyDA and content-addressed layers do. The same bytes placed twice at one
	// height are then listed twice under one id (in placement order). Default: every placed blob has its own id.
	ContentIDs bool
	listed     map[uint64][][]byte // ContentIDs: the id listing of each height in placement order
	// TimeOf gives the timestamp reported for a height (default: Unix second = height, which leaves the range a
	// time.Time can be encoded in for heights beyond ~2.5e11).
	TimeOf func(h uint64) time.Time
}

func (d *DADouble) tsOf(h uint64) time.Time {
	if d.TimeOf != nil {
		return d.TimeOf(h)
	}
	return time.Unix(int64(h), 0)
}

var _ coreda.DA = (*DADouble)(nil)

// NewDADouble creates a DA double at height 0.
func NewDADouble() *DADouble {
	return &DADouble{byHeight: map[uint64][][]byte{}, ids: map[string][]byte{}, retScr: map[uint64][]RetrieveOutcome{},
		getCount: map[uint64]int{}, AutoAdvance: true, futureSeen: map[uint64]int{}, idleCh: make(chan uint64, 1024)}
}

// ScriptSubmit appends scripted submit outcomes (default when exhausted: accept).
func (d *DADouble) ScriptSubmit(o ...SubmitOutcome) {
	d.mu.Lock()
	d.subScr = append(d.subScr, o...)
	d.mu.Unlock()
}

// SetDefaultSubmit sets the outcome of every submission for which nothing is scripted ("" or "accept" = accept):
// a DA outage of unbounded length, switched on and off by the driver.
func (d *DADouble) SetDefaultSubmit(kind string) {
	d.mu.Lock()
	if kind == "accept" {
		kind = ""
	}
	d.defSub = SubmitOutcome{Kind: kind}
	d.mu.Unlock()
}

// SubmitCalls is the number of submissions received so far.
func (d *DADouble) SubmitCalls() int {
	d.mu.Lock()
	defer d.mu.Unlock()
	n := 0
	for _, c := range d.calls {
		if c.Kind == "submit" {
			n++
		}
	}
	return n
}

// RetrieveInFlight is the number of GetIDs calls currently hanging inside the double.
func (d *DADouble) RetrieveInFlight() int64 { return d.retrieveInFlight.Load() }

// ClearSubmitScript drops remaining scripted submit outcomes.
func (d *DADouble) ClearSubmitScript() {
	d.mu.Lock()
	d.subScr = nil
	d.mu.Unlock()
}

// ScriptRetrieve appends scripted retrieval outcomes for a height (default when exhausted: real contents).
func (d *DADouble) ScriptRetrieve(h uint64, o ...RetrieveOutcome) {
	d.mu.Lock()
	d.retScr[h] = append(d.retScr[h], o...)
	d.mu.Unlock()
}

// ClearRetrieveScript drops all remaining scripted retrieval outcomes (from here on the real contents are served).
func (d *DADouble) ClearRetrieveScript() {
	d.mu.Lock()
	d.retScr = map[uint64][]RetrieveOutcome{}
	d.mu.Unlock()
}

// SetEmptyAs overrides EmptyAs for one height.
func (d *DADouble) SetEmptyAs(h uint64, kind string) {
	d.mu.Lock()
	if d.emptyAsAt == nil {
		d.emptyAsAt = map[uint64]string{}
	}
	d.emptyAsAt[h] = kind
	d.mu.Unlock()
}

// Height returns the current DA height.
func (d *DADouble) Height() uint64 {
	d.mu.Lock()
	defer d.mu.Unlock()
	return d.cur
}

// SetHeight moves the current DA height (never backwards).
func (d *DADouble) SetHeight(h uint64) {
	d.mu.Lock()
	if h > d.cur {
		d.cur = h
	}
	d.mu.Unlock()
}

// Place puts blobs at a DA height directly (third-party or harness-placed material).
func (d *DADouble) Place(h uint64, blobs ...[]byte) {
	d.mu.Lock()
	defer d.mu.Unlock()
	d.placeLocked(h, blobs)
	if h > d.cur {
		d.cur = h
	}
}

func (d *DADouble) placeLocked(h uint64, blobs [][]byte) [][]byte {
	var ids [][]byte
	for _, b := range blobs {
		d.nonce++
		hsh := sha256.Sum256(b)
		if d.ContentIDs {
			id := make([]byte, 8+len(hsh))
			binary.LittleEndian.PutUint64(id, h)
			copy(id[8:], hsh[:])
			c := append([]byte{}, b...)
			d.byHeight[h] = append(d.byHeight[h], c)
			d.ids[string(id)] = c
			if d.listed == nil {
				d.listed = map[uint64][][]byte{}
			}
			d.listed[h] = append(d.listed[h], id)
			ids = append(ids, id)
			continue
		}
		id := make([]byte, 8+8+len(hsh))
		binary.LittleEndian.PutUint64(id, h)
		binary.LittleEndian.PutUint64(id[8:], d.nonce)
		copy(id[16:], hsh[:])
		c := append([]byte{}, b...)
		d.byHeight[h] = append(d.byHeight[h], c)
		d.ids[string(id)] = c
		ids = append(ids, id)
	}
	return ids
}

// Blobs returns the blobs at a height.
func (d *DADouble) Blobs(h uint64) [][]byte {
	d.mu.Lock()
	defer d.mu.Unlock()
	return append([][]byte(nil), d.byHeight[h]...)
}

// AllBlobs returns height -> blobs.
func (d *DADouble) AllBlobs() map[uint64][][]byte {
	d.mu.Lock()
	defer d.mu.Unlock()
	out := map[uint64][][]byte{}
	for h, b := range d.byHeight {
		out[h] = append([][]byte(nil), b...)
	}
	return out
}

// Calls returns a copy of the call log.
// CtxDoneGets returns how many chunk fetches for a DA height arrived with a context that was already over.
func (d *DADouble) CtxDoneGets(height uint64) int {
	d.mu.Lock()
	defer d.mu.Unlock()
	return d.ctxDone[height]
}

func (d *DADouble) Calls() []DACall {
	d.mu.Lock()
	defer d.mu.Unlock()
	return append([]DACall(nil), d.calls...)
}

// FutureAnswers returns how many times "height from future" was answered for h.
func (d *DADouble) FutureAnswers(h uint64) int {
	d.mu.Lock()
	defer d.mu.Unlock()
	return d.futureSeen[h]
}

// IdleCh receives the height each time the scan was told "from the future" (scan went idle).
func (d *DADouble) IdleCh() <-chan uint64 { return d.idleCh }

func (d *DADouble) delay(kind string) {
	if d.Delay != nil {
		d.Delay(kind)
	}
}

func (d *DADouble) GasPrice(ctx context.Context) (float64, error)      { return 1, nil }
func (d *DADouble) GasMultiplier(ctx context.Context) (float64, error) { return 1.5, nil }

func (d *DADouble) Submit(ctx context.Context, blobs []coreda.Blob, gasPrice float64, namespace []byte) ([]coreda.ID, error) {
	return d.SubmitWithOptions(ctx, blobs, gasPrice, namespace, nil)
}

func (d *DADouble) SubmitWithOptions(ctx context.Context, blobs []coreda.Blob, gasPrice float64, namespace []byte, options []byte) ([]coreda.ID, error) {
	d.delay("submit")
	var gaveUp error
	if lat := time.Duration(d.ConfirmLatency.Load()); lat > 0 {
		t := time.NewTimer(lat)
		select {
		case <-t.C:
		case <-ctx.Done():
			// the caller gave up before the confirmation: recorded below as "ctxdone", nothing stored
		}
		t.Stop()
		gaveUp = ctx.Err()
		// judged by the clock, not by which timer the runtime served first: after a stall of the process both the
		// confirmation and the caller's deadline are due, and the deadline was the earlier one
		if dl, ok := ctx.Deadline(); ok && gaveUp == nil && !time.Now().Before(dl) {
			gaveUp = context.DeadlineExceeded
		}
	}
	d.mu.Lock()
	o := SubmitOutcome{Kind: "accept"}
	if d.defSub.Kind != "" {
		o = d.defSub
	}
	if len(d.subScr) > 0 {
		o = d.subScr[0]
		d.subScr = d.subScr[1:]
	}
	call := DACall{Seq: len(d.calls), Kind: "submit", Outcome: o.String()}
	for _, b := range blobs {
		call.Blobs = append(call.Blobs, append([]byte{}, b...))
	}
	if gaveUp == nil {
		gaveUp = ctx.Err()
	}
	if gaveUp != nil && o.Kind != "block" {
		call.Outcome = "ctxdone"
		call.Err = gaveUp.Error()
		d.calls = append(d.calls, call)
		d.mu.Unlock()
		return nil, gaveUp
	}
	store := func(n int) []coreda.ID {
		if n <= 0 {
			return nil
		}
		h := d.cur
		if d.AutoAdvance {
			h = d.cur + 1
			d.cur = h
		}
		ids := d.placeLocked(h, blobs[:n])
		call.Height = h
		call.Stored = n
		return ids
	}
	fail := func(err error) ([]coreda.ID, error) {
		call.Err = err.Error()
		d.calls = append(d.calls, call)
		d.mu.Unlock()
		return nil, err
	}
	if d.MaxBlob > 0 {
		for _, b := range blobs {
			if len(b) > d.MaxBlob {
				call.Outcome = "toobig(size)"
				return fail(coreda.ErrBlobSizeOverLimit)
			}
		}
	}
	switch o.Kind {
	case "accept":
		ids := store(len(blobs))
		call.Acked = len(ids)
		d.calls = append(d.calls, call)
		d.mu.Unlock()
		return ids, nil
	case "prefix":
		n := o.Prefix
		if n >= len(blobs) {
			n = len(blobs) - 1
		}
		if n < 1 {
			n = 1
		}
		if n > len(blobs) {
			n = len(blobs)
		}
		ids := store(n)
		call.Acked = len(ids)
		d.calls = append(d.calls, call)
		d.mu.Unlock()
		return ids, nil
	case "timeout":
		return fail(fmt.Errorf("da double: %w", coreda.ErrTxTimedOut))
	case "mempool":
		return fail(coreda.ErrTxAlreadyInMempool)
	case "toobig":
		return fail(coreda.ErrBlobSizeOverLimit)
	case "seqerr":
		return fail(coreda.ErrTxIncorrectAccountSequence)
	case "deadline":
		return fail(coreda.ErrContextDeadline)
	case "error":
		return fail(errors.New("da double: generic failure"))
	case "acklost":
		store(len(blobs))
		return fail(errors.New("da double: connection reset after acceptance"))
	case "cancelled":
		return fail(context.Canceled)
	case "cancelledda":
		// the DA interface's own cancellation sentinel (what the JSON-RPC client maps a remote "context canceled" to)
		return fail(fmt.Errorf("da double: %w", coreda.ErrContextCanceled))
	case "block":
		d.calls = append(d.calls, call)
		d.mu.Unlock()
		<-ctx.Done()
		return nil, ctx.Err()
	}
	return fail(errors.New("da double: unknown outcome " + o.Kind))
}

func (d *DADouble) GetIDs(ctx context.Context, height uint64, namespace []byte) (*coreda.GetIDsResult, error) {
	d.delay("getids")
	if d.BlockRetrieve.Load() {
		// the DA client hangs: only the caller's context ends the call
		d.retrieveInFlight.Add(1)
		<-ctx.Done()
		d.retrieveInFlight.Add(-1)
		return nil, ctx.Err()
	}
	d.mu.Lock()
	defer d.mu.Unlock()
	call := DACall{Seq: len(d.calls), Kind: "getids", Height: height}
	o := RetrieveOutcome{Kind: "ok"}
	if s := d.retScr[height]; len(s) > 0 {
		o = s[0]
		if o.Kind != "chunkerr" {
			d.retScr[height] = s[1:]
		}
	}
	d.getCount[height] = 0
	d.lastList = height
	if ctx.Err() != nil {
		call.Outcome = "ctxdone"
		call.Err = ctx.Err().Error()
		d.calls = append(d.calls, call)
		return nil, ctx.Err()
	}
	if o.Kind == "ok" || o.Kind == "chunkerr" {
		if height > d.cur {
			o.Kind = "future"
		} else if len(d.byHeight[height]) == 0 {
			if o.Kind == "chunkerr" {
				d.retScr[height] = d.retScr[height][1:]
			}
			o.Kind = "notfound"
			as := d.EmptyAs
			if v, ok := d.emptyAsAt[height]; ok {
				as = v
			}
			if as == "emptylist" || as == "nilresult" {
				o.Kind = as
			}
		}
	}
	call.Outcome = o.Kind
	switch o.Kind {
	case "emptylist":
		d.calls = append(d.calls, call)
		return &coreda.GetIDsResult{IDs: []coreda.ID{}, Timestamp: d.tsOf(height)}, nil
	case "nilresult":
		d.calls = append(d.calls, call)
		return nil, nil
	case "future":
		call.Err = coreda.ErrHeightFromFuture.Error()
		d.calls = append(d.calls, call)
		d.futureSeen[height]++
		select {
		case d.idleCh <- height:
		default:
		}
		return nil, fmt.Errorf("%w: requested %d, current %d", coreda.ErrHeightFromFuture, height, d.cur)
	case "notfound":
		call.Err = coreda.ErrBlobNotFound.Error()
		d.calls = append(d.calls, call)
		return nil, coreda.ErrBlobNotFound
	case "listerr":
		call.Err = "listing failed"
		d.calls = append(d.calls, call)
		return nil, RetrieveErr(o.ErrVariant, "listing")
	}
	var ids [][]byte
	if d.ContentIDs {
		for _, id := range d.listed[height] {
			ids = append(ids, append([]byte(nil), id...))
		}
	} else {
		for id := range d.ids {
			if binary.LittleEndian.Uint64([]byte(id)) == height {
				ids = append(ids, []byte(id))
			}
		}
		// order by nonce = placement order
		sortIDs(ids)
	}
	if sc := d.retScr[height]; len(sc) > 0 && sc[0].Kind == "chunkerr" {
		nChunks := (len(ids) + 99) / 100
		if sc[0].Chunk >= nChunks {
			sc[0].Chunk = nChunks - 1
		}
	}
	call.NIDs = len(ids)
	d.calls = append(d.calls, call)
	return &coreda.GetIDsResult{IDs: ids, Timestamp: d.tsOf(height)}, nil
}

func sortIDs(ids [][]byte) {
	for i := 1; i < len(ids); i++ {
		for j := i; j > 0 && binary.LittleEndian.Uint64(ids[j][8:]) < binary.LittleEndian.Uint64(ids[j-1][8:]); j-- {
			ids[j], ids[j-1] = ids[j-1], ids[j]
		}
	}
}

func (d *DADouble) Get(ctx context.Context, ids []coreda.ID, namespace []byte) ([]coreda.Blob, error) {
	d.delay("get")
	d.mu.Lock()
	defer d.mu.Unlock()
	var height uint64
	if len(ids) > 0 && len(ids[0]) >= 8 {
		height = binary.LittleEndian.Uint64(ids[0])
	}
	call := DACall{Seq: len(d.calls), Kind: "get", Height: height, NIDs: len(ids), Outcome: "ok"}
	if err := ctx.Err(); err != nil {
		// like every client that hands the caller's context to a network call: a context that is already over gets no answer
		call.Outcome = "ctxdone"
		if d.ctxDone == nil {
			d.ctxDone = map[uint64]int{}
		}
		d.ctxDone[height]++
		call.Err = err.Error()
		d.calls = append(d.calls, call)
		return nil, err
	}
	idx := d.getCount[height]
	d.getCount[height]++
	if s := d.retScr[height]; len(s) > 0 && s[0].Kind == "chunkerr" {
		if s[0].Chunk == idx {
			d.retScr[height] = s[1:]
			call.Outcome = "chunkerr"
			call.Err = "chunk fetch failed"
			d.calls = append(d.calls, call)
			return nil, RetrieveErr(s[0].ErrVariant, "chunk fetch")
		}
	}
	out := make([]coreda.Blob, 0, len(ids))
	for _, id := range ids {
		b, ok := d.ids[string(id)]
		if !ok {
			call.Outcome = "notfound"
			d.calls = append(d.calls, call)
			return nil, coreda.ErrBlobNotFound
		}
		out = append(out, append([]byte{}, b...))
	}
	d.calls = append(d.calls, call)
	return out, nil
}

func (d *DADouble) GetProofs(ctx context.Context, ids []coreda.ID, namespace []byte) ([]coreda.Proof, error) {
	return make([]coreda.Proof, len(ids)), nil
}

func (d *DADouble) Commit(ctx context.Context, blobs []coreda.Blob, namespace []byte) ([]coreda.Commitment, error) {
	out := make([]coreda.Commitment, len(blobs))
	for i, b := range blobs {
		h := sha256.Sum256(b)
		out[i] = h[:]
	}
	return out, nil
}

func (d *DADouble) Validate(ctx context.Context, ids []coreda.ID, proofs []coreda.Proof, namespace []byte) ([]bool, error) {
	out := make([]bool, len(ids))
	for i := range out {
		out[i] = true
	}
	return out, nil
}
