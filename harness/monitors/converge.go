package monitors

import (
	"bytes"
	"context"
	"fmt"
	"time"

	"verifharness/world"
)

// CheckFullNode verifies W2 on a full node against the proposer's chain.
// prevHeight is the height observed at the previous check (monotonicity); final demands
// that the node has reached everything it received both parts for.
//
// A complaint is confirmed before it is returned: the barriers of the driver know the node's loops as they are
// today (one goroutine per loop); a node that hands items from one stage to the next asynchronously may still be
// working when a barrier has returned, and what the oracle saw then was a state in motion. So on a complaint the
// check waits (a few milliseconds, doubling, with the sync barrier in between), looks again, and reports only what is
// still wrong when the picture has stopped changing. Nothing a correct node does is undone by waiting, so no genuine
// complaint gets lost: a block applied too early stays applied, a node that is stuck stays stuck.
func CheckFullNode(ctx context.Context, f *world.FN, prevHeight uint64, final bool, hit func(string)) (uint64, []Problem) {
	h, probs := checkFullNodeOnce(ctx, f, prevHeight, final, hit)
	if len(probs) == 0 {
		return h, probs
	}
	quiet := func(string) {}
	for i := 0; i < 6; i++ {
		time.Sleep(time.Duration(2<<i) * time.Millisecond)
		if f.L.SyncBarrier() != nil {
			break
		}
		h2, probs2 := checkFullNodeOnce(ctx, f, prevHeight, final, quiet)
		if len(probs2) == 0 {
			hit("complaint-gone-after-the-node-settled")
			return h2, nil
		}
		h, probs = h2, probs2
	}
	return h, probs
}

func checkFullNodeOnce(ctx context.Context, f *world.FN, prevHeight uint64, final bool, hit func(string)) (uint64, []Problem) {
	var probs []Problem
	add := func(c string, h uint64, format string, a ...any) {
		probs = append(probs, Problem{c, h, fmt.Sprintf(format, a...)})
	}
	p := f.P
	H, err := f.N.Store.Height(ctx)
	if err != nil {
		add("store-height", 0, "%v", err)
		return prevHeight, probs
	}
	hit("height-monotone")
	if H < prevHeight {
		add("height-monotone", H, "chain height went from %d to %d", prevHeight, H)
	}
	hstar := f.HStar()
	hit("no-early-apply")
	if H > hstar && H >= p.Spec.Initial {
		add("no-early-apply", H, "height %d although both parts were delivered only up to %d", H, hstar)
	}
	if H > p.Tip() {
		add("beyond-tip", H, "height %d beyond the proposer's tip %d", H, p.Tip())
		return H, probs
	}
	from := p.Spec.Initial
	if !final && prevHeight >= from {
		from = prevHeight // re-check the last known one and everything new
	}
	for h := from; h <= H; h++ {
		i := p.Idx(h)
		hdr, data, err := f.N.Store.GetBlockData(ctx, h)
		if err != nil {
			add("block-present", h, "height is %d but block %d is not retrievable: %v", H, h, err)
			continue
		}
		hit("same-header")
		if !bytes.Equal(hdr.Hash(), p.HeaderHash[i]) {
			add("same-header", h, "header hash differs from the proposer's")
		}
		txs := make([][]byte, len(data.Txs))
		for j := range data.Txs {
			txs[j] = data.Txs[j]
		}
		hit("same-txs")
		if !equalTxs(txs, p.Txs[i]) {
			add("same-txs", h, "tx list differs from the proposer's (%d vs %d txs)", len(txs), len(p.Txs[i]))
		}
	}
	if H < p.Spec.Initial {
		// nothing applied yet: a fresh full node keeps its initial state in memory only
	} else if st, err := f.N.Store.GetState(ctx); err != nil {
		add("state", H, "GetState: %v", err)
	} else {
		hit("state")
		if st.LastBlockHeight != H {
			add("state-height", H, "state.LastBlockHeight=%d, Height()=%d", st.LastBlockHeight, H)
		} else if !bytes.Equal(st.AppHash, p.Roots[p.Idx(H)]) {
			add("same-root", H, "state root differs from the proposer's root after block %d", H)
		}
	}
	// execution log: 1,2,3,... with the proposer's txs and roots
	next := p.Spec.Initial
	lastExec := map[uint64]int{} // height -> index of its latest successful execution call
	for ci, c := range f.Exec.Execs() {
		if c.Err != "" {
			continue
		}
		hit("exec-order")
		if prev, again := lastExec[c.Height]; again {
			// a block may be executed again only by a new process (a restart lies between the two executions)
			restarted := false
			for _, m := range f.ExecMarks {
				if prev < m && m <= ci {
					restarted = true
				}
			}
			hit("exec-once-per-process")
			if !restarted {
				add("exec-order", c.Height, "block %d was executed twice by the same process (calls %d and %d): blocks are not applied strictly in height order", c.Height, prev, ci)
				break
			}
		}
		lastExec[c.Height] = ci
		if c.Height > next {
			add("exec-order", c.Height, "ExecuteTxs for height %d while %d was expected next", c.Height, next)
			break
		}
		if c.Height < p.Spec.Initial || c.Height > p.Tip() {
			add("exec-order", c.Height, "ExecuteTxs for a height outside the chain")
			break
		}
		i := p.Idx(c.Height)
		if !equalTxs(c.Txs, p.Txs[i]) {
			add("exec-txs", c.Height, "ExecuteTxs(%d) got %d txs, the proposer's block has %d", c.Height, len(c.Txs), len(p.Txs[i]))
		}
		if !bytes.Equal(c.Root, p.Roots[i]) {
			add("exec-root", c.Height, "execution of block %d produced a different root than on the proposer", c.Height)
		}
		if c.Height == next {
			next++
		}
	}
	if final {
		hit("converged")
		if H < hstar {
			add("converged", H, "stopped at height %d although both parts of all blocks up to %d were delivered", H, hstar)
		}
	}
	return H, probs
}

// CheckHeightWritesAcross judges the values written to the chain-height key over all processes of a node (one log per
// process): the recorded height never skips a height and never goes down while a process runs. Re-writing the current
// value is no change of height; the first write of a restarted process may repeat or fall back to an earlier value (a
// recovery that re-derives the height), but never jumps ahead. If the key does not hold what today's store writes (another
// name or encoding) nothing is judged: the same content is judged through the store API by the other clauses.
func CheckHeightWritesAcross(logs [][]world.WriteRec, hit func(string)) []Problem {
	var all []uint64
	last, have := uint64(0), false
	for _, l := range logs {
		hw := HeightWrites(l)
		for _, v := range hw {
			if v > 1<<48 {
				return nil // not the little-endian counter this reader understands
			}
		}
		all = append(all, hw...)
		for i, v := range hw {
			if !have {
				last, have = v, true
				continue
			}
			hit("height-writes")
			switch {
			case v > last+1:
				return []Problem{{"height-writes", v, fmt.Sprintf("the recorded chain height skips a height: writes %v", all)}}
			case v < last && i > 0:
				return []Problem{{"height-writes", v, fmt.Sprintf("the recorded chain height goes down while the node runs: writes %v", all)}}
			}
			last = v
		}
	}
	return nil
}
