// Package monitors holds the oracles. They re-derive every clause from the recorded
// world state and do not call the node's own validation code.
package monitors

import (
	"bytes"
	"context"
	"crypto/sha256"
	"encoding/binary"
	"fmt"

	"github.com/libp2p/go-libp2p/core/crypto"

	"github.com/evstack/ev-node/pkg/store"
	"github.com/evstack/ev-node/types"

	"verifharness/world"
)

// Problem is one violated clause.
type Problem struct {
	Clause string
	Height uint64
	Detail string
}

func (p Problem) String() string { return fmt.Sprintf("%s@%d: %s", p.Clause, p.Height, p.Detail) }

// Commitment recomputes the data commitment from the raw protobuf encoding of a Data
// message that carries only the ordered transaction list (field 2, repeated bytes).
func Commitment(txs [][]byte) []byte {
	var enc []byte
	for _, tx := range txs {
		enc = append(enc, 0x12)
		enc = binary.AppendUvarint(enc, uint64(len(tx)))
		enc = append(enc, tx...)
	}
	h := sha256.New()
	h.Write([]byte{0})
	h.Write(enc)
	return h.Sum(nil)
}

// EmptyCommitment is the commitment of the empty transaction list.
var EmptyCommitment = Commitment(nil)

// Block is what the oracle keeps per committed height.
type Block struct {
	Height     uint64
	HeaderHash []byte
	Txs        [][]byte
	TimeNano   uint64
	Root       []byte // reference root after executing this block
	RespID     int    // release id of the sequencing response it was built from (-1: genesis / unknown)
}

// ChainExpect carries the reference information the harness owns.
type ChainExpect struct {
	ChainID       string
	InitialHeight uint64
	Pub           crypto.PubKey
	Addr          []byte
	GenesisNano   uint64
	// Responses are the batch-producing sequencing responses (kinds txs and empty) in release order.
	// nil disables the batch-mapping clause.
	Responses []world.SeqResp
	// AllowSkip decides whether a response that never made it into the chain is a legitimate drop.
	// prevTime is the time of the block preceding the place where it would have gone.
	AllowSkip func(r world.SeqResp, prevTimeNano uint64) bool
	// TrailingUnconsumedOK: responses after the last one used need not be in the chain.
	CheckExecLog bool
	Execs        []world.ExecCall
	// RootFn is the reference root function of the execution layer the node ran against (nil: world.RootAfter); it
	// gets the height of the executed block, the root before it and its transactions.
	RootFn func(height uint64, prevRoot []byte, txs [][]byte) []byte
}

// CheckChain verifies W1 on the store for all heights initial..Height() and returns the reference blocks.
func CheckChain(ctx context.Context, st store.Store, ex ChainExpect, hit func(string)) ([]Block, []Problem) {
	var probs []Problem
	add := func(c string, h uint64, f string, a ...any) {
		probs = append(probs, Problem{c, h, fmt.Sprintf(f, a...)})
	}
	height, err := st.Height(ctx)
	if err != nil {
		add("store-height", 0, "Height(): %v", err)
		return nil, probs
	}
	if height < ex.InitialHeight {
		// nothing committed yet
		if s, err := st.GetState(ctx); err == nil && s.LastBlockHeight != ex.InitialHeight-1 {
			add("state-height", height, "no block committed but state height %d", s.LastBlockHeight)
		}
		return nil, probs
	}
	prevRoot := world.InitRoot(ex.ChainID, ex.InitialHeight)
	var blocks []Block
	var prevHash []byte
	var prevTime uint64
	for h := ex.InitialHeight; h <= height; h++ {
		hdr, data, err := st.GetBlockData(ctx, h)
		if err != nil {
			add("block-present", h, "GetBlockData: %v", err)
			return blocks, probs
		}
		hit("block-present")
		if hdr.Height() != h {
			add("height", h, "stored header has height %d", hdr.Height())
		}
		if hdr.ChainID() != ex.ChainID {
			add("chain-id", h, "header chain id %q", hdr.ChainID())
		}
		hh := hdr.Hash()
		if h > ex.InitialHeight {
			hit("hash-link")
			if !bytes.Equal(hdr.LastHeaderHash, prevHash) {
				add("hash-link", h, "LastHeaderHash %x != hash of header %d %x", []byte(hdr.LastHeaderHash), h-1, prevHash)
			}
			hit("time-monotone")
			if hdr.BaseHeader.Time < prevTime {
				add("time-monotone", h, "time %d < predecessor %d", hdr.BaseHeader.Time, prevTime)
			}
		}
		txs := make([][]byte, len(data.Txs))
		for i := range data.Txs {
			txs[i] = data.Txs[i]
		}
		// commitment
		hit("commitment")
		if !bytes.Equal(hdr.DataHash, Commitment(txs)) {
			add("commitment", h, "DataHash %x != recomputed commitment %x (ntx=%d)", []byte(hdr.DataHash), Commitment(txs), len(txs))
		}
		// metadata of stored data names this block
		if data.Metadata != nil {
			if data.Metadata.Height != h || data.Metadata.ChainID != ex.ChainID || data.Metadata.Time != hdr.BaseHeader.Time {
				add("data-metadata", h, "metadata (%s,%d,%d) does not match header (%s,%d,%d)", data.Metadata.ChainID, data.Metadata.Height, data.Metadata.Time, ex.ChainID, h, hdr.BaseHeader.Time)
			}
		}
		// delayed app hash
		hit("app-hash")
		if !bytes.Equal(hdr.AppHash, prevRoot) {
			add("app-hash", h, "AppHash %x != root after block %d %x", []byte(hdr.AppHash), h-1, prevRoot)
		}
		root := world.RootAfter(prevRoot, txs)
		if ex.RootFn != nil {
			root = ex.RootFn(h, prevRoot, txs)
		}
		// proposer / signature under the harness's key
		hit("signature")
		if !bytes.Equal(hdr.ProposerAddress, ex.Addr) {
			add("proposer", h, "ProposerAddress %x != genesis %x", hdr.ProposerAddress, ex.Addr)
		}
		payload, err := hdr.Header.MarshalBinary()
		if err != nil {
			add("signature", h, "marshal: %v", err)
		} else {
			ok, err := ex.Pub.Verify(payload, hdr.Signature)
			if err != nil || !ok {
				add("signature", h, "header signature does not verify under the genesis proposer key (err=%v)", err)
			}
		}
		if hdr.Signer.PubKey == nil || !hdr.Signer.PubKey.Equals(ex.Pub) {
			add("signer-key", h, "header carries a different public key")
		}
		sig, err := st.GetSignature(ctx, h)
		if err != nil {
			add("stored-signature", h, "GetSignature: %v", err)
		} else if !bytes.Equal(*sig, hdr.Signature) {
			add("stored-signature", h, "GetSignature differs from header signature")
		}
		// by-hash index
		if bh, _, err := st.GetBlockByHash(ctx, hh); err != nil || bh.Height() != h {
			add("hash-index", h, "GetBlockByHash(hash of %d): err=%v", h, err)
		}
		b := Block{Height: h, HeaderHash: hh, Txs: txs, TimeNano: hdr.BaseHeader.Time, Root: root, RespID: -1}
		if ex.CheckExecLog {
			hit("exec-log")
			ok := false
			for _, c := range ex.Execs {
				if c.Err == "" && c.Height == h && bytes.Equal(c.PrevRoot, prevRoot) && equalTxs(c.Txs, txs) {
					ok = true
					break
				}
			}
			if !ok {
				add("exec-log", h, "no successful ExecuteTxs(height=%d, these %d txs, root of %d) in the execution log", h, len(txs), h-1)
			}
		}
		blocks = append(blocks, b)
		prevRoot = root
		prevHash = hh
		prevTime = hdr.BaseHeader.Time
	}
	if ex.Responses != nil {
		for _, pr := range mapBlocksToBatches(blocks, ex, hit) {
			probs = append(probs, pr)
		}
	}
	// state
	s, err := st.GetState(ctx)
	if err != nil {
		add("state", height, "GetState: %v", err)
	} else {
		hit("state")
		if s.LastBlockHeight != height {
			add("state-height", height, "state.LastBlockHeight=%d but Height()=%d", s.LastBlockHeight, height)
		} else if !bytes.Equal(s.AppHash, prevRoot) {
			add("state-root", height, "state.AppHash %x != reference root %x", s.AppHash, prevRoot)
		}
	}
	// nothing beyond the height is visible as committed through the by-height API? (a pending block may exist at height+1)
	return blocks, probs
}

func equalTxs(a, b [][]byte) bool {
	if len(a) != len(b) {
		return false
	}
	for i := range a {
		if !bytes.Equal(a[i], b[i]) {
			return false
		}
	}
	return true
}

// EqualTxs is exported for drivers.
func EqualTxs(a, b [][]byte) bool { return equalTxs(a, b) }

// HeightWrites extracts the values written to the chain-height key from a write log.
func HeightWrites(log []world.WriteRec) []uint64 {
	var out []uint64
	for _, r := range log {
		for i, k := range r.Keys {
			if k == "/t" && len(r.Vals[i]) == 16 {
				var b [8]byte
				fmt.Sscanf(r.Vals[i], "%02x%02x%02x%02x%02x%02x%02x%02x", &b[0], &b[1], &b[2], &b[3], &b[4], &b[5], &b[6], &b[7])
				out = append(out, binary.LittleEndian.Uint64(b[:]))
			}
		}
	}
	return out
}

// CheckBroadcasts verifies that broadcast payloads are committed blocks.
func CheckBroadcasts(blocks []Block, initial uint64, hdrs []*types.SignedHeader, datas []*types.Data, hit func(string)) []Problem {
	var probs []Problem
	byH := map[uint64]Block{}
	for _, b := range blocks {
		byH[b.Height] = b
	}
	for _, h := range hdrs {
		hit("broadcast-header")
		b, ok := byH[h.Height()]
		if !ok {
			probs = append(probs, Problem{"broadcast-header", h.Height(), "header broadcast for a height that is not committed"})
			continue
		}
		if !bytes.Equal(h.Hash(), b.HeaderHash) {
			probs = append(probs, Problem{"broadcast-header", h.Height(), "broadcast header differs from the committed one"})
		}
	}
	for _, d := range datas {
		hit("broadcast-data")
		if d.Metadata == nil {
			probs = append(probs, Problem{"broadcast-data", 0, "data broadcast without metadata"})
			continue
		}
		b, ok := byH[d.Metadata.Height]
		if !ok {
			probs = append(probs, Problem{"broadcast-data", d.Metadata.Height, "data broadcast for a height that is not committed"})
			continue
		}
		txs := make([][]byte, len(d.Txs))
		for i := range d.Txs {
			txs[i] = d.Txs[i]
		}
		if !equalTxs(txs, b.Txs) {
			probs = append(probs, Problem{"broadcast-data", d.Metadata.Height, "broadcast data differs from the committed one"})
		}
	}
	return probs
}

// mapBlocksToBatches judges "every block commits to exactly the transactions of the batch it was built from, batches
// in release order": the blocks, in order, must match a subsequence of the released batches, in order, with equal
// transaction lists; a batch may be left out only where AllowSkip says so (given the time of the block before it).
// Whether the block at the initial height was built from a batch (or is the node's own empty first block) is the
// implementation's choice: both readings are tried. Block time stamps take no part in the matching.
func mapBlocksToBatches(blocks []Block, ex ChainExpect, hit func(string)) []Problem {
	if len(blocks) == 0 {
		return nil
	}
	rtxs := func(r world.SeqResp) [][]byte {
		if r.Kind == world.SeqEmpty {
			return nil
		}
		return r.Txs
	}
	try := func(from int) (fail int, next int, assign []int) {
		// reach: response indices that can come next after the blocks matched so far; parent pointers give one assignment
		type state struct{ next, parent, used int }
		layers := [][]state{{{next: 0, parent: -1, used: -1}}}
		for bi := from; bi < len(blocks); bi++ {
			prevTime := ex.GenesisNano
			if bi > 0 {
				prevTime = blocks[bi-1].TimeNano
			}
			cur := layers[len(layers)-1]
			var nxt []state
			seen := map[int]bool{}
			for pi, stt := range cur {
				for k := stt.next; k < len(ex.Responses); k++ {
					r := ex.Responses[k]
					if equalTxs(rtxs(r), blocks[bi].Txs) && !seen[k+1] {
						seen[k+1] = true
						nxt = append(nxt, state{next: k + 1, parent: pi, used: k})
					}
					if ex.AllowSkip == nil || !ex.AllowSkip(r, prevTime) {
						break
					}
				}
			}
			if len(nxt) == 0 {
				return bi, cur[0].next, nil
			}
			layers = append(layers, nxt)
		}
		// one assignment (first state of the last layer, back through the parents)
		assign = make([]int, len(blocks))
		for i := range assign {
			assign[i] = -1
		}
		pi := 0
		for li := len(layers) - 1; li >= 1; li-- {
			stt := layers[li][pi]
			assign[from+li-1] = stt.used
			pi = stt.parent
		}
		return -1, 0, assign
	}
	for bi := range blocks {
		if blocks[bi].Height > ex.InitialHeight {
			hit("batch-mapping")
		}
	}
	fail, next, assign := try(1)
	if fail >= 0 {
		if f0, _, a0 := try(0); f0 < 0 {
			fail, assign = -1, a0
		}
	}
	if fail >= 0 {
		b := blocks[fail]
		if next < len(ex.Responses) {
			r := ex.Responses[next]
			return []Problem{{"batch-mapping", b.Height, fmt.Sprintf("block %d (%d txs, t=%d) is not built from the next released batch #%d (%s, %d txs, t=%d) nor from a later one that could follow it", b.Height, len(b.Txs), b.TimeNano, r.ID, r.Kind, len(r.Txs), r.Time.UnixNano())}}
		}
		return []Problem{{"batch-mapping", b.Height, fmt.Sprintf("block %d (%d txs, t=%d) was not built from any released batch", b.Height, len(b.Txs), b.TimeNano)}}
	}
	for i, k := range assign {
		if k >= 0 {
			blocks[i].RespID = ex.Responses[k].ID
		}
	}
	return nil
}
