#!/bin/bash
# Runs checks against a scratch copy of /repo with a patch applied, without touching /repo or /verif state.
#   scripts/mutant_run.sh <patch-file|-> <tier> <Cxx> [<Cxx>...]     ("-" = no patch: unchanged scratch copy)
# Prints each check's VIOLATION / KNOWN-FINDING / SUMMARY lines and "RESULT <Cxx> rc=<n>".
# Everything lives under /tmp/vm-<pid> and is removed at the end.
set -u
patch="$1"; tier="$2"; shift 2
[ "$patch" != "-" ] && patch=$(readlink -f "$patch")
W=/tmp/vm-$$
trap 'git -C /repo worktree remove --force $W/repo >/dev/null 2>&1; rm -rf $W' EXIT
mkdir -p $W/root
git -C /repo worktree add --detach $W/repo HEAD >/dev/null 2>&1 || { echo "worktree failed"; exit 2; }
if [ "$patch" != "-" ]; then
  git -C $W/repo apply "$patch" || { echo "PATCH-DOES-NOT-APPLY"; exit 2; }
fi
cp -r /verif/harness $W/harness
sed -i "s#=> /repo#=> $W/repo#" $W/harness/go.mod
cp /verif/KNOWN_FINDINGS.txt $W/root/ 2>/dev/null
[ -d /verif/golden ] && cp -r /verif/golden $W/root/
export VERIF_ROOT=$W/root GOFLAGS=-mod=mod GOPROXY=off GOLOG_LOG_LEVEL=fatal
unset GOTOOLCHAIN GOSUMDB GOWORK
mkdir -p $W/root/out $W/root/evidence $W/bin
for prop in "$@"; do
  flags=""; [ "$prop" = C13 ] && flags="-race"
  lc=$(echo $prop | tr 'C' 'c')
  if ! (cd $W/harness && go build $flags -tags verif -o $W/bin/$lc ./cmd/one/$lc) >$W/build.log 2>&1; then
    echo "BUILD-FAILED $prop"; tail -20 $W/build.log; echo "RESULT $prop rc=2"; continue
  fi
  timeout -s QUIT -k 30 3600 $W/bin/$lc $tier >$W/run.log 2>&1
  rc=$?
  grep -E '^(VIOLATION|KNOWN-FINDING|INCONCLUSIVE|SUMMARY|  clause)' $W/run.log | head -40
  if [ $rc -ne 0 ] && [ $rc -ne 1 ] && [ $rc -ne 3 ]; then tail -30 $W/run.log; fi
  echo "RESULT $prop rc=$rc"
done
# MUTANT_KEEP=<dir>: keep the replay files of this run there
if [ -n "${MUTANT_KEEP:-}" ]; then mkdir -p "$MUTANT_KEEP"; cp -r $W/root/out/replays/. "$MUTANT_KEEP"/ 2>/dev/null; fi
