#!/bin/bash
# scripts/baseline_repeat.sh [n]: runs the pinned suite (tag off) n times and lists every stable test that did not pass in some run.
cd "$(dirname "$(readlink -f "$0")")/.."
n=${1:-5}
for i in $(seq 1 $n); do
  scripts/baseline_off.sh > /tmp/baseline-rep.json 2>/dev/null
  python3 - "$i" <<'PY'
import json,sys
b=json.load(open('/root/.vp/BASELINE.json'))
stable=set(b['stable_pass'])
res={}
for line in open('/tmp/baseline-rep.json'):
    try: e=json.loads(line)
    except: continue
    if e.get('Test') and e.get('Action') in('pass','fail','skip'):
        res[e['Package']+'::'+e['Test']]=e['Action']
miss=sorted(t for t in stable if res.get(t)!='pass')
print('run',sys.argv[1],'stable',len(stable),'not passing',len(miss),miss[:12])
PY
done
rm -f /tmp/baseline-rep.json
