#!/bin/bash
# Runs every hand-written mutant under harness/props/cNN/mutants/*.diff against the check of that property (quick tier)
# in a scratch worktree: files named benign-* / tolerated-* (conforming variants) and undetected-* (real breaks the check cannot decide: documented gaps) must stay silent (rc=0 or 3), all others must be caught (rc=1).
#   scripts/run_mutants.sh [jobs]        result table: out/logs/mutants.txt
cd "$(dirname "$(readlink -f "$0")")/.."
jobs=${1:-4}
L=out/logs/mutant-lines; rm -rf $L; mkdir -p $L
one() {
  f=$1; prop=$(echo $f | sed 's#.*/props/c\([0-9]*\)/.*#C\1#'); name=$(basename $f .diff)
  res=$(scripts/mutant_run.sh $f quick $prop 2>&1)
  rc=$(echo "$res" | grep "^RESULT $prop " | sed 's/.*rc=//')
  echo "$res" | grep -q PATCH-DOES-NOT-APPLY && rc=noapply
  want=1; case $name in benign*|tolerated*|undetected*) want=0;; esac
  verdict=OK
  if [ "$want" = 1 ] && [ "$rc" != 1 ]; then verdict=UNEXPECTED; fi
  if [ "$want" = 0 ] && [ "$rc" != 0 ] && [ "$rc" != 3 ]; then verdict=UNEXPECTED; fi
  echo "$verdict $prop $name rc=$rc (expected $([ $want = 1 ] && echo caught || echo silent))" | tee out/logs/mutant-lines/$prop-$name
}
export -f one
ls harness/props/c*/mutants/*.diff | xargs -P $jobs -I{} bash -c "one {}"
cat $L/* | sort > out/logs/mutants.txt
echo "TOTAL $(ls $L | wc -l) UNEXPECTED $(grep -c '^UNEXPECTED' out/logs/mutants.txt)"
