#!/bin/bash
# Runs ALL registered quick checks against every property-preserving variant under benign/<id>/patch.diff (scratch
# worktree per variant). A variant must leave every check silent (rc=0, or 3 = inconclusive): any VIOLATION is a false alarm.
#   scripts/run_benign.sh [jobs] [ids...]      results: benign/RESULTS.md (rewritten when run without ids), lines in out/logs/benign-lines/
cd "$(dirname "$(readlink -f "$0")")/.."
jobs=${1:-4}; shift 2>/dev/null
ids=${*:-$(ls benign | grep -v RESULTS.md)}
L=out/logs/benign-lines; mkdir -p $L
one() {
  id=$1; d=benign/$id; [ -f $d/patch.diff ] || exit 0
  res=$(scripts/mutant_run.sh $d/patch.diff quick C01 C02 C03 C04 C05 C06 C07 C08 C09 C10 C11 C12 C13 C14 C15 C16 C17 C18 C19 C20 2>&1)
  bad=""
  if echo "$res" | grep -q PATCH-DOES-NOT-APPLY; then bad=" PATCH-DOES-NOT-APPLY"; fi
  for p in C01 C02 C03 C04 C05 C06 C07 C08 C09 C10 C11 C12 C13 C14 C15 C16 C17 C18 C19 C20; do
    rc=$(echo "$res" | grep "^RESULT $p " | sed 's/.*rc=//')
    if [ "$rc" = 1 ]; then clause=$(echo "$res" | grep -A1 '^VIOLATION property='$p | grep 'clause=' | head -1 | sed 's/^ *clause=//' | cut -c1-160 | tr '|' '/'); bad="$bad $p:ALARM[$clause]"; fi
    if [ "$rc" = 2 ]; then bad="$bad $p:BUILD-OR-CRASH"; fi
    if [ "$rc" = 3 ]; then bad="$bad $p:inconclusive"; fi
  done
  [ -z "$bad" ] && bad=" silent (20 checks)"
  echo "| $id |$bad |" | tee out/logs/benign-lines/$id
}
export -f one
echo $ids | tr ' ' '\n' | xargs -P $jobs -I{} bash -c "one {}"
if [ $# -eq 0 ]; then
  { echo "# Property-preserving variants vs all registered checks"; echo; echo "Regenerate with \`scripts/run_benign.sh [jobs]\`. Every variant (benign/<id>/patch.diff, written by an independent agent told to keep the property while changing how the code achieves it) must leave all twenty quick checks silent."; echo; echo "| variant | result |"; echo "|---|---|"; cat $L/* | sort; } > benign/RESULTS.md
fi
echo "TOTAL $(ls $L | wc -l) WITH-ALARM $(grep -l ALARM $L/* 2>/dev/null | wc -l)"
