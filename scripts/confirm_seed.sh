#!/bin/bash
# Confirms a seeded change independently: scripts/confirm_seed.sh <seed-dir>   (dir holds patch.diff, demo_test.go, meta.json)
#  1. demo passes on a clean worktree of /repo HEAD      2. patch applies and the touched packages' existing tests pass
#  3. demo fails with the patch.   Prints CONFIRMED or the reason it is not. Scratch under /tmp/cs-<pid>, removed at the end.
set -u
D=$(readlink -f "$1")
W=/tmp/cs-$$
trap 'git -C /repo worktree remove --force $W >/dev/null 2>&1; rm -rf $W' EXIT
export GOFLAGS=-mod=mod GOPROXY=off; unset GOTOOLCHAIN GOSUMDB GOWORK
git -C /repo worktree add --detach $W HEAD >/dev/null 2>&1 || { echo "NOT-CONFIRMED worktree"; exit 2; }
pkgdir=$(python3 -c "import json,sys;print(json.load(open(sys.argv[1]))['demo_package_dir'])" $D/meta.json)
democmd=$(python3 -c "import json,sys;print(json.load(open(sys.argv[1]))['demo_command'])" $D/meta.json)
pkgdir=${pkgdir#/tmp/seed-c[0-9][0-9]/}; pkgdir=${pkgdir#./}
demos=$(ls $D/*_test.go $D/demo*.go 2>/dev/null | sort -u)
[ -z "$demos" ] && { echo "NOT-CONFIRMED no demo file"; exit 2; }
mkdir -p $W/$pkgdir
for f in $demos; do cp $f $W/$pkgdir/zz_seed_$(basename $f); done
rundemo() { # run from the module root that owns pkgdir
  local mod=$W/$pkgdir
  while [ ! -f $mod/go.mod ]; do mod=$(dirname $mod); done
  local rel=${W}/$pkgdir; rel=${rel#$mod}; rel=.${rel}
  # pull out the -run pattern of the recorded command (fallback: run everything in the package)
  local pat=$(echo "$democmd" | grep -oE -- "-run[ =]+'?\"?[^ '\"]+" | sed -E "s/-run[ =]+['\"]?//" | head -1)
  local race=""; echo "$democmd" | grep -q -- "-race" && race="-race"
  (cd $mod && timeout 1800 go test $race -mod=mod -vet=off -count=1 ${pat:+-run "$pat"} $rel > $W/demo.log 2>&1)
  local rc=$?
  if grep -q "no tests to run" $W/demo.log; then echo "NOT-CONFIRMED the demo command selects no test (pattern: $pat)"; exit 1; fi
  return $rc
}
rundemo; rc0=$?
if [ $rc0 -ne 0 ]; then echo "NOT-CONFIRMED demo does not pass WITHOUT the patch"; tail -15 $W/demo.log; exit 1; fi
git -C $W apply $D/patch.diff || { echo "NOT-CONFIRMED patch does not apply"; exit 1; }
# existing tests of the touched packages (demo files moved away meanwhile)
mkdir -p $W/.seedtmp; mv $W/$pkgdir/zz_seed_* $W/.seedtmp/
fail=0
for f in $(grep '^+++ b/' $D/patch.diff | sed 's#+++ b/##'); do
  d=$(dirname $f); mod=$W/$d; while [ ! -f $mod/go.mod ]; do mod=$(dirname $mod); done
  rel=$W/$d; rel=.${rel#$mod}
  (cd $mod && go build ./... > $W/build.log 2>&1) || { echo "NOT-CONFIRMED does not compile"; tail -10 $W/build.log; exit 1; }
  (cd $mod && timeout 1500 go test -mod=mod -vet=off -count=1 $rel > $W/t.log 2>&1) || {
    # tolerate tests that also fail without the patch (pre-existing/flaky): re-run the failing ones once
    # tests that fail or flake on the pinned baseline as well (BASELINE.json always_fail / flaky) do not count
    bad=$(grep -E '^--- FAIL' $W/t.log | awk '{print $3}' | sed 's#/.*##' | grep -v -E '^(TestSaveGenesis_InvalidPath|TestClientInfoMethods|TestDiscovery|TestHTTPServerContextCancellation|TestSequencer_GetNextBatch_FromDALayer)$' | sort -u | tr '\n' '|' | sed 's/|$//')
    [ -z "$bad" ] && grep -qE '^--- FAIL' $W/t.log && continue
    if [ -n "$bad" ]; then (cd $mod && go test -mod=mod -vet=off -count=1 -run "^($bad)\$" $rel > $W/t2.log 2>&1) || { fail=1; echo "existing tests fail with the patch in $d: $bad"; }; else fail=1; tail -5 $W/t.log; fi
  }
done
[ $fail -ne 0 ] && { echo "NOT-CONFIRMED existing tests fail with the patch"; exit 1; }
mv $W/.seedtmp/zz_seed_* $W/$pkgdir/
rundemo; rc1=$?
if [ $rc1 -eq 0 ]; then echo "NOT-CONFIRMED demo still passes WITH the patch"; exit 1; fi
echo "CONFIRMED $(basename $D): demo passes without, fails with the patch; touched packages' tests pass"
