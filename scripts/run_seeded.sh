#!/bin/bash
# Runs the registered checks against every seeded change and writes seeded/RESULTS.md.
#   scripts/run_seeded.sh [quick|thorough] [seed-id ...]
cd "$(dirname "$(readlink -f "$0")")/.."
tier=${1:-quick}; shift 2>/dev/null
ids=${*:-$(ls seeded | grep -v RESULTS.md)}
out=seeded/RESULTS.md
tmp=$(mktemp)
for id in $ids; do
  d=seeded/$id; [ -f $d/patch.diff ] || continue
  prop=$(python3 -c "import json,sys;print(json.load(open(sys.argv[1]))['property'])" $d/meta.json)
  extra=$(python3 -c "import json,sys;print(' '.join(json.load(open(sys.argv[1])).get('also_run',[])))" $d/meta.json)
  res=$(scripts/mutant_run.sh $d/patch.diff $tier $prop $extra 2>&1)
  caught=""; for p in $prop $extra; do
    rc=$(echo "$res" | grep "^RESULT $p " | sed 's/.*rc=//')
    if [ "$rc" = 1 ]; then clause=$(echo "$res" | grep -A1 '^VIOLATION property='$p | grep 'clause=' | head -1 | sed 's/^ *clause=//' | cut -c1-110); caught="$caught $p:[$clause]"; fi
    [ "$rc" = 2 ] && caught="$caught $p:BUILD-FAILED"
  done
  echo "$res" | grep -q PATCH-DOES-NOT-APPLY && caught=" PATCH-DOES-NOT-APPLY (rebase the seed onto the current tree)"
  [ -z "$caught" ] && caught=" MISSED"
  echo "| $id | $prop | $tier |$caught |" | tee -a $tmp
done
{ echo "# Seeded changes vs registered checks"; echo; echo "Regenerate with \`scripts/run_seeded.sh [tier] [ids]\`. caught = the check exits 1 with a VIOLATION line on the tree with the change applied."; echo; echo "| seed | property | tier | caught by (first clause) |"; echo "|---|---|---|---|"; sort $tmp; } > $out.new
if [ $# -eq 0 ] || [ ! -f $out ]; then mv $out.new $out; else
  # partial run: merge
  { head -6 $out.new | head -5; (grep '^| C' $out | grep -v -F -f <(cut -d'|' -f2 $tmp | sed 's/^/|/;s/$/|/') ; cat $tmp) | sort; } > $out.merged; mv $out.merged $out; rm -f $out.new
fi
rm -f $tmp
