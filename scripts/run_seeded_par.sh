#!/bin/bash
# Parallel version of run_seeded.sh: scripts/run_seeded_par.sh [tier] [jobs] [pattern] ; runs every seed (or those whose id
# matches the grep pattern, keeping the other seeds' last lines) and rewrites seeded/RESULTS.md
cd "$(dirname "$(readlink -f "$0")")/.."
tier=${1:-quick}; jobs=${2:-4}; pat=${3:-}
L=out/logs/seeded-lines; [ -z "$pat" ] && rm -rf $L; mkdir -p $L
one() {
  id=$1; tier=$2; d=seeded/$id; [ -f $d/patch.diff ] || exit 0
  prop=$(python3 -c "import json,sys;print(json.load(open(sys.argv[1]))['property'])" $d/meta.json)
  extra=$(python3 -c "import json,sys;print(' '.join(json.load(open(sys.argv[1])).get('also_run',[])))" $d/meta.json)
  res=$(scripts/mutant_run.sh $d/patch.diff $tier $prop $extra 2>&1)
  caught=""; for p in $prop $extra; do
    rc=$(echo "$res" | grep "^RESULT $p " | sed 's/.*rc=//')
    if [ "$rc" = 1 ]; then clause=$(echo "$res" | grep -A1 '^VIOLATION property='$p | grep 'clause=' | head -1 | sed 's/^ *clause=//' | cut -c1-110 | tr '|' '/'); caught="$caught $p:[$clause]"; fi
    [ "$rc" = 2 ] && caught="$caught $p:BUILD-FAILED"
  done
  echo "$res" | grep -q PATCH-DOES-NOT-APPLY && caught=" PATCH-DOES-NOT-APPLY (rebase the seed onto the current tree)"
  [ -z "$caught" ] && caught=" MISSED"
  echo "| $id | $prop | $tier |$caught |" > out/logs/seeded-lines/$id
  cat out/logs/seeded-lines/$id
}
export -f one
ls seeded | grep -v RESULTS.md | grep -e "$pat" | xargs -P $jobs -I{} bash -c "one {} $tier"
out=seeded/RESULTS.md
{ echo "# Seeded changes vs registered checks"; echo; echo "Regenerate with \`scripts/run_seeded_par.sh [tier] [jobs]\` (or \`scripts/run_seeded.sh [tier] [ids]\` for some). caught = the check exits 1 with a VIOLATION line on the tree with the change applied."; echo; echo "| seed | property | tier | caught by (first clause) |"; echo "|---|---|---|---|"; cat $L/* | sort; } > $out
echo "TOTAL $(ls $L | wc -l) MISSED $(grep -l MISSED $L/* 2>/dev/null | wc -l)"
