#!/bin/bash
# Runs the repository's pinned test suite with the verif build tag OFF (the hooks do not exist for the compiler).
# Same module list and flags as /root/.vp/BASELINE.json's cmd.
export GOFLAGS=-mod=mod GOPROXY=off
unset GOTOOLCHAIN GOSUMDB
rc=0
for m in . ./apps/evm/based ./apps/evm/single ./apps/testapp ./core ./da ./execution/evm ./sequencers/based ./sequencers/single ./test/docker-e2e ./test/e2e; do
  (cd /repo/$m && go test -mod=mod -json -vet=off -count=1 -timeout 25m ./...) || rc=1
done
exit $rc
