#!/bin/bash
# scripts/ingest_seed.sh cNN ...  : confirm /tmp/seed-cNN/SEED/{a,b} independently and keep the confirmed ones under /verif/seeded/
cd "$(dirname "$(readlink -f "$0")")/.."
for c in "$@"; do
  C=$(echo $c | tr c C)
  for x in a b; do
    src=/tmp/seed-$c/SEED/$x
    [ -f $src/patch.diff ] || { echo "$C-$x: no patch"; continue; }
    res=$(scripts/confirm_seed.sh $src 2>&1 | tail -4)
    if echo "$res" | grep -q '^CONFIRMED'; then
      dst=seeded/$C-$x; rm -rf $dst; mkdir -p $dst
      cp $src/patch.diff $src/meta.json $dst/; cp $src/*.go $dst/ 2>/dev/null
      python3 - "$dst/meta.json" "$C" <<'PY'
import json,sys
p=sys.argv[1]; m=json.load(open(p)); m['property']=sys.argv[2]
m['confirmed']="scripts/confirm_seed.sh: demo passes on clean HEAD, patch applies, touched packages' tests pass, demo fails with patch"
json.dump(m,open(p,'w'),indent=1)
PY
      echo "$C-$x: CONFIRMED"
    else
      echo "$C-$x: $res"
    fi
  done
done
