#!/bin/bash
# scripts/ingest_seed.sh [round:]cNN ...  : confirm /tmp/seed<round>-cNN/SEED/{a,b,c} independently and keep the confirmed
# ones under /verif/seeded/CNN-<x> (round 1) or CNN-r<round><x>.
cd "$(dirname "$(readlink -f "$0")")/.."
for arg in "$@"; do
  round=""; c=$arg
  case "$arg" in *:*) round=${arg%%:*}; c=${arg##*:};; esac
  C=$(echo $c | tr c C)
  for x in a b c; do
    src=/tmp/seed$round-$c/SEED/$x
    [ -f $src/patch.diff ] || continue
    res=$(scripts/confirm_seed.sh $src 2>&1 | tail -4)
    name=$C-$x; [ -n "$round" ] && name=$C-r$round$x
    if echo "$res" | grep -q '^CONFIRMED'; then
      dst=seeded/$name; rm -rf $dst; mkdir -p $dst
      cp $src/patch.diff $src/meta.json $dst/; cp $src/*.go $dst/ 2>/dev/null
      python3 - "$dst/meta.json" "$C" <<'PY'
import json,sys
p=sys.argv[1]; m=json.load(open(p)); m['property']=sys.argv[2]
m['confirmed']="scripts/confirm_seed.sh: demo passes on clean HEAD, patch applies, touched packages' tests pass, demo fails with patch"
json.dump(m,open(p,'w'),indent=1)
PY
      echo "$name: CONFIRMED"
    else
      echo "$name: $res"
    fi
  done
done
