#!/usr/bin/env python3
"""Regenerates /verif/MANIFEST.json from the table below (run after adding a check)."""
import json, os, subprocess

ROOT = os.path.dirname(os.path.dirname(os.path.abspath(__file__)))

# id -> (category, text, note, technique, design_ref)
W = "MemDS datastore double (Put/Delete/Batch.Commit atomic and durable once returned; a crash loses exactly the writes not yet issued), execution / sequencing / DA doubles obeying the documented contracts, default signature payload provider; held on the executions produced, not for all inputs."
CHECKS = {
 "C01": ("exploration",
         "Seeded multi-step scripts of hostile sequencing/execution responses drive the real aggregator Manager one production step at a time; an independent oracle re-derives every clause of the chain (link, time, commitment from raw protobuf, delayed app hash, signature under the harness's key, batch mapping, height writes, broadcasts), a real non-aggregator Manager must accept the chain, and bounded no-stall is asserted.",
         W, "runtime monitoring: reference-model oracle over recorded store/exec/sequencer/broadcast events of scripted executions of the real Manager", "DESIGN.md 6 W1, 7 C01"),
 "C02": ("exploration",
         "A real full-node Manager with all its loops is fed the proposer's chain in generated delivery schedules (all permutations for small chains, mixed DA / P2P / channel ingress with duplicates, omissions, grouped DA heights and clean restarts); after every event the convergence oracle W2 compares blocks, roots and the execution log with the proposer's, and at quiescence the node must have reached everything it received both parts for.",
         W + " Delivery through the node's own loops, not libp2p gossip.", "runtime monitoring: barrier-stepped delivery schedules into the real loops + convergence oracle", "DESIGN.md 6 W2, 7 C02"),
 "C03": ("exploration",
         "Differential runs of a real full node on the same schedule with and without items an attacker can build without the proposer's key (16 kinds, DA and P2P ingress): end states must be equal, no loop may die of DA-borne material, every stored header must verify under the harness's copy of the key, no DA-included mark for foreign hashes; header-only node = the real go-header Syncer+Store behind subscriber/exchange doubles.",
         W + " Gossip transport itself (libp2p) is not exercised here.", "runtime monitoring: differential end-state oracle + direct signature/mark checks on executions with adversarial traffic", "DESIGN.md 7 C03"),
 "C04": ("fault_enumeration",
         "Every boundary between two durable writes of a production step (found from the write log, not assumed) is a crash point; enumerated exhaustively over prefix length, step kind and initial height, nested to depth 2 (3 in thorough), followed by restart, clean steps and the chain oracle; the cache writer is killed at every write system call (strace injection) on top of an older cache generation and a node must start on what is left.",
         W + " Process-kill semantics, not power loss.", "runtime fault injection: crash-after-N-writes datastore + strace kill points, chain oracle after recovery", "DESIGN.md 7 C04"),
 "C05": ("fault_enumeration",
         "Crash after every durable write of applying a block on a real full node (in-order and cascaded application), second crash during re-application, redelivery of the rest / everything / shuffled, then the complete chain on DA: convergence oracle after every event and the DA-included height must reach the tip.",
         W, "runtime fault injection: crash-after-N-writes datastore under the real SyncLoop + convergence oracle", "DESIGN.md 7 C05"),
 "C06": ("fault_enumeration",
         "Every sequence of DA submit outcomes up to length 3 (4 in thorough) over nine outcome kinds, on the header and the data stream, with restarts between rounds: each submit call is decoded and judged (committed material, proposer's signature, height order, starts at watermark+1), every watermark write must be monotone and not past the accepted prefix, and after faults stop everything must be on DA within two iterations.",
         W + " One loop iteration is driven through the verif hook; the ticker loops run unmodified in C13.", "runtime monitoring: DA-double call log + watermark write log oracle over enumerated fault sequences", "DESIGN.md 6 W3, 7 C06"),
 "C07": ("exploration",
         "Seeded interleavings of production, submissions (with DA faults), inclusion passes of the real DAIncluderLoop, DA scans, clean and crash restarts on an aggregator and on a DA-fed full node; monitors at the SetFinal call and at the persist write give the order finalize -> persist -> report; soundness against the DA double's contents; bounded liveness after faults stop.",
         W, "runtime monitoring: online assertions at SetFinal / persist hooks + DA-content soundness oracle", "DESIGN.md 6 W4, 7 C07"),
 "C08": ("exploration",
         "Seeded rounds of (header iteration, data iteration, 1-4 production steps) with DA outages for limits 1,2,3,5 and eight block patterns: a declined step must be justified by >= limit blocks beyond the accepted prefix of a stream, a produced block must be below the limit, and R accepting rounds must raise the height by >= R-1.",
         W + " A submission round is atomic in the harness (header then data iteration).", "runtime monitoring: per-step throttle oracle against the DA double's accepted prefix", "DESIGN.md 7 C08"),
 "C09": ("fault_enumeration",
         "All fetch-outcome sequences up to length 3 (4) per DA height plus runs of 10-13 failures, over DA heights holding genuine blobs mixed with junk (every truncation class, bit flips, absurd lengths, wrong types), 230-250 ids at one height; the real RetrieveLoop runs in child processes; the oracle reads the DA call log (start, advance-after-success-or-nothing, retry-same-height) and the emitted events.",
         W + " The scan's 100 ms retry pause is real time; a scan that does not reach the DA head within 90 s with instantly answering doubles is judged stalled.", "runtime monitoring: call-log ordering oracle + exactly-the-genuine-blobs event oracle, crash isolation by child processes", "DESIGN.md 7 C09"),
 "C10": ("exploration",
         "Sequential histories of submit/next/restart/crash on the real single sequencer against a bounded-FIFO reference model (a crash may or may not have cut the one operation in flight), key-space checks for rejected submissions, and concurrent client histories checked for linearizability with porcupine plus conservation after drain.",
         W, "runtime monitoring: reference-model comparison + porcupine linearizability checking of recorded histories", "DESIGN.md 7 C10"),
 "C11": ("fault_enumeration",
         "Operation scripts on the real Reaper + real single sequencer + real Manager sharing one datastore; the first three reap and produce operations of every script are additionally cut by a crash after every durable write; at quiescence every transaction the mempool handed out must be in the chain, blocks must be the released batches in release order, and without crashes nothing is included more often than offered.",
         W + " Mempool double per contract (executed transactions leave the mempool).", "runtime fault injection + conservation / ordering oracle between mempool, sequencer releases and chain", "DESIGN.md 7 C11"),
 "C12": ("exploration",
         "Structural generators over every wire type through every path (P2P, DA blob, block store, gob cache), a hand-written protobuf/hash reference, 62 golden vectors recorded from the pinned tree, and decoder totality on mutated and random bytes in child processes (a dead child is a violation attributed to the journaled input).",
         "MemDS instead of Badger for the store path; golden vectors record today's behaviour.", "runtime monitoring: round-trip / reference-encoding / golden-vector oracles, decoder fuzzing with crash isolation", "DESIGN.md 7 C12"),
 "C13": ("exploration",
         "All loops of an aggregator and a full node run concurrently as goroutines under the Go race detector (children of the -race build) with DA latency/faults and datastore yields; afterwards W1-W4 run on the final state; stop scenarios by logical position require every loop to return within 10 s after cancel with every double released; the real FullNode.Run (libp2p loopback) is stopped at seeded instants. Evidence reports race reports, operations traced, distinct interleaving windows and overlap pairs.",
         W + " The race detector only sees executed interleavings.", "runtime monitoring: Go race detector + post-mortem invariant oracles + stop watchdog with goroutine dump", "DESIGN.md 7 C13"),
 "C14": ("exploration",
         "Operation sequences on the real store against a per-kind map model on MemDS (save = exactly one four-record durable write; crash after every write index), on real Badger with close/reopen, and a child writing to Badger that is SIGKILLed (all four records of a block or none).",
         "Badger's own durability is trusted for the MemDS runs and spot-checked by the kill test (process kill, not power loss).", "runtime monitoring: reference-model comparison + write-log atomicity check + kill/reopen", "DESIGN.md 7 C14"),
 "C15": ("exploration",
         "Two real KVExecutor instances on their own Badger directories fed the same blocks with different SetFinal / mempool / InitChain / reopen timing must return equal roots, which a sorted-map reference model predicts; malformed blocks change nothing; re-execution and re-initialisation are idempotent.",
         "Badger on disk under /verif/out/tmp; reopen by closing the private handle or by child processes.", "runtime monitoring: differential (two instances) + reference-model root oracle", "DESIGN.md 7 C15"),
 "C16": ("fault_enumeration",
         "The same call sequence on two identical scriptable backings, one called directly and one through the real JSON-RPC server+client on loopback: node-side helper results must agree in code, count, ids, data, height for every sentinel error (plain, wrapped, look-alike texts), cancellation and deadline, heights with/without/future blobs; the client's size filter must send exactly the longest fitting prefix and report what the backing stored.",
         "HTTP transport on loopback only; messages and timestamps are not compared.", "runtime monitoring: differential oracle direct vs proxied over an enumerated fault matrix", "DESIGN.md 7 C16"),
 "C17": ("exploration",
         "The real AggregationLoop with the production function replaced by a recorder: a notification during an in-flight production must be followed by a further production (idle interval 1 h, 15 s watchdog), on-demand latency and minimum gap judged by majority over 8 samples, block counts over 24 intervals bounded above exactly and below generously, normal mode under a notification storm.",
         "Real time is used only where load can merely make the implementation look better; isolated early/late samples are counted, not judged.", "runtime monitoring: timing recorder on the real loop with load-robust verdict rules", "DESIGN.md 7 C17"),
 "C18": ("exploration",
         "Fields discovered by reflection over Config and flags by VisitAll; for every field and every (default, file, flag) presence pattern the loaded Config must equal a reference model in every field; every option-naming flag must reach its option; SaveAsYaml -> Load and genesis save -> load must round-trip; invalid genesis files must be refused.",
         "Exhaustive over fields and flags, sampled over values.", "runtime monitoring: reference-model comparison of Load results over reflected fields/flags", "DESIGN.md 7 C18"),
 "C19": ("fault_enumeration",
         "Create/load/export/import of the real key file in child processes: every byte position x {bit flips, 0x00, 0xFF} and every truncation length (stratified in quick, complete in thorough), JSON-level mutations, wrong passphrases, legacy salt-less files: load must fail or yield the same key whose signatures verify under the key it reports and whose address is KeyAddress(pub); never a panic.",
         "Standard-library reference for the legacy derivation; Argon2 cost makes the byte enumeration stratified in quick.", "runtime fault injection on the key file + signature/address oracle, crash isolation by child processes", "DESIGN.md 7 C19"),
 "C20": ("exploration",
         "Histories of GetNextBatch calls on the real based sequencer over generated DA contents, limits, DA growth, retrieval errors and restarts: the concatenation of released transactions must at all times be a prefix of the DA contents in (height, position) order, every batch within the requested size, bounded completeness once the DA is frozen.",
         W, "runtime monitoring: prefix-of-DA-order oracle over recorded releases", "DESIGN.md 7 C20"),
}

NOT_YET = {}

def main():
    props = [json.loads(l) for l in open(os.path.join(ROOT, "properties.jsonl"))]
    hooks_commits = subprocess.run(["git", "-C", "/repo", "log", "--format=%H", "--grep=^verif:"], capture_output=True, text=True).stdout.split()
    checks, na = [], []
    for p in props:
        pid = p["id"]
        if pid in CHECKS:
            cat, text, note, tech, ref = CHECKS[pid]
            checks.append({
                "property_id": pid,
                "quick_cmd": f"./vcheck {pid} quick",
                "thorough_cmd": f"./vcheck {pid} thorough",
                "evidence_file": f"evidence/{pid}.json",
                "replay_cmd_template": "./vcheck replay {path}",
                "engine": "vh",
                "level_claimed": {"category": cat, "text": text, "design_ref": ref},
                "level_note": note,
                "technique": tech,
            })
        else:
            na.append({"property_id": pid, "reason": NOT_YET.get(pid, "check not built yet in this session (runtime monitor designed in DESIGN.md §7; listed here until its command exists and is silent on the unchanged tree)")})
    m = {
        "version": 1,
        "setup_cmd": "./vcheck setup",
        "hooks": {
            "guard": "verif",
            "enable": "go build -tags verif (the harness module /verif/harness replaces the repo modules by /repo and is always built with -tags verif)",
            "baseline_off_cmd": "/verif/scripts/baseline_off.sh",
            "source_commits": hooks_commits,
            "add_only": True,
        },
        "engines": [{"name": "vh", "path": "harness/cmd/vh", "serves_properties": [c["property_id"] for c in checks],
                     "kind_free_text": "Go harness: real node code of /repo (rebuilt with -tags verif) run inside recording doubles; oracles over recorded executions; race detector build for C13"}],
        "checks": checks,
        "notes": "Runtime monitoring only. Known findings: KNOWN_FINDINGS.txt. Evidence is rewritten by every run.",
        "not_applicable": na,
    }
    json.dump(m, open(os.path.join(ROOT, "MANIFEST.json"), "w"), indent=1)
    print("checks:", len(checks), "not_applicable:", len(na))

main()
