#!/usr/bin/env python3
"""Regenerates /verif/MANIFEST.json from the table below (run after adding a check)."""
import json, os, subprocess

ROOT = os.path.dirname(os.path.dirname(os.path.abspath(__file__)))

# id -> (category, text, note, technique, design_ref)
CHECKS = {
 "C01": ("exploration",
         "Seeded multi-step scripts of hostile sequencing/execution responses drive the real aggregator Manager one production step at a time; an independent oracle re-derives every clause of the chain (link, time, commitment from raw protobuf, delayed app hash, signature under the harness's key, batch mapping, height writes, broadcasts), a real non-aggregator Manager must accept the chain, and bounded no-stall is asserted. Held on the executions produced, not for all inputs.",
         "MemDS datastore double (atomic batch commit), execution/sequencing/DA doubles obeying the documented contracts, default signature payload provider.",
         "runtime monitoring: reference-model oracle over recorded store/exec/sequencer/broadcast events of scripted executions of the real Manager",
         "DESIGN.md §6 W1, §7 C01"),
}

NOT_YET = {}

def main():
    props = [json.loads(l) for l in open(os.path.join(ROOT, "properties.jsonl"))]
    hooks_commits = subprocess.run(["git", "-C", "/repo", "log", "--format=%H", "--grep=^verif:"], capture_output=True, text=True).stdout.split()
    checks, na = [], []
    for p in props:
        pid = p["id"]
        if pid in CHECKS:
            cat, text, note, tech, ref = CHECKS[pid]
            checks.append({
                "property_id": pid,
                "quick_cmd": f"./vcheck {pid} quick",
                "thorough_cmd": f"./vcheck {pid} thorough",
                "evidence_file": f"evidence/{pid}.json",
                "replay_cmd_template": "./vcheck replay {path}",
                "engine": "vh",
                "level_claimed": {"category": cat, "text": text, "design_ref": ref},
                "level_note": note,
                "technique": tech,
            })
        else:
            na.append({"property_id": pid, "reason": NOT_YET.get(pid, "check not built yet in this session (runtime monitor designed in DESIGN.md §7; listed here until its command exists and is silent on the unchanged tree)")})
    m = {
        "version": 1,
        "setup_cmd": "./vcheck setup",
        "hooks": {
            "guard": "verif",
            "enable": "go build -tags verif (the harness module /verif/harness replaces the repo modules by /repo and is always built with -tags verif)",
            "baseline_off_cmd": "/verif/scripts/baseline_off.sh",
            "source_commits": hooks_commits,
            "add_only": True,
        },
        "engines": [{"name": "vh", "path": "harness/cmd/vh", "serves_properties": [c["property_id"] for c in checks],
                     "kind_free_text": "Go harness: real node code of /repo (rebuilt with -tags verif) run inside recording doubles; oracles over recorded executions; race detector build for C13"}],
        "checks": checks,
        "notes": "Runtime monitoring only. Known findings: KNOWN_FINDINGS.txt. Evidence is rewritten by every run.",
        "not_applicable": na,
    }
    json.dump(m, open(os.path.join(ROOT, "MANIFEST.json"), "w"), indent=1)
    print("checks:", len(checks), "not_applicable:", len(na))

main()
