#!/usr/bin/env python3
"""Regenerates /verif/MANIFEST.json from the table below (run after adding a check)."""
import json, os, subprocess

ROOT = os.path.dirname(os.path.dirname(os.path.abspath(__file__)))

# id -> (category, text, note, technique, design_ref)
W = "MemDS datastore double (Put/Delete/Batch.Commit atomic and durable once returned; a crash loses exactly the writes not yet issued), execution / sequencing / DA doubles obeying the documented contracts, default signature payload provider; held on the executions produced, not for all inputs."
CHECKS = {
 "C01": ("exploration",
         "Seeded multi-step scripts of hostile sequencing/execution responses drive the real aggregator Manager one production step at a time; an independent oracle re-derives every clause of the chain (link, time, commitment from raw protobuf, delayed app hash, signature under the harness's key, batch mapping, height writes, broadcasts), a real non-aggregator Manager must accept the chain, and bounded no-stall is asserted.",
         W, "runtime monitoring: reference-model oracle over recorded store/exec/sequencer/broadcast events of scripted executions of the real Manager", "DESIGN.md 6 W1, 7 C01"),
 "C02": ("exploration",
         "A real full-node Manager with all its loops is fed the proposer's chain (initial height 1 or 5) in generated delivery schedules: all permutations for small chains, mixed DA / P2P / channel ingress with duplicates, omissions and grouped DA heights, clean restarts, clean stops with events still in flight (a lagging consumer, the stop raised right after the n-th application persisted its state), bulk P2P bursts, a 10 051-block backlog, and items that reach the P2P stores unseen before a restart. After every event the convergence oracle W2 compares blocks, roots and the execution log with the proposer's (a block is executed at most once per process), and at quiescence the node must have reached everything it received both parts for.",
         W + " Delivery through the node's own loops, not libp2p gossip.", "runtime monitoring: barrier-stepped delivery schedules into the real loops + convergence oracle", "DESIGN.md 6 W2, 7 C02"),
 "C03": ("exploration",
         "Differential runs of a real full node on the same schedule with and without items an attacker can build without the proposer's key (19 kinds, DA and P2P-header ingress, also directly behind genuine headers in one poll): end states must be equal, no loop may die of DA-borne material, every stored header must verify under the harness's copy of the key, no DA-included mark for foreign hashes; forged transaction data in the P2P data store (genuine metadata, other transactions) must never be applied; header-only node = the real go-header Syncer+Store behind subscriber/exchange doubles.",
         W + " Gossip transport itself (libp2p) is not exercised here.", "runtime monitoring: differential end-state oracle + direct signature/mark checks on executions with adversarial traffic", "DESIGN.md 7 C03"),
 "C04": ("fault_enumeration",
         "Every boundary between two durable writes of a production step (found from the write log, not assumed) is a crash point; enumerated exhaustively over prefix length, step kind and initial height, nested to depth 2 (3 in thorough), followed by restart, clean steps and the chain oracle; the cache writer is killed at every write system call (strace injection) on top of an older cache generation and a node must start on what is left.",
         W + " Process-kill semantics, not power loss.", "runtime fault injection: crash-after-N-writes datastore + strace kill points, chain oracle after recovery", "DESIGN.md 7 C04"),
 "C05": ("fault_enumeration",
         "Crash after every durable write of applying a block on a real full node (in-order and cascaded application; chains with initial height 1 or 5), second crash during re-application, then redelivery of the rest / everything / shuffled through the channels, or nothing at all because the P2P stores (which survive) already held the chain and only tick: convergence oracle after every event and at the end of the redelivery, before the DA layer offers the chain a second time.",
         W, "runtime fault injection: crash-after-N-writes datastore under the real SyncLoop + convergence oracle", "DESIGN.md 7 C05"),
 "C06": ("fault_enumeration",
         "Every sequence of DA submit outcomes up to length 4 (5 in thorough) over nine outcome kinds, on the header and the data stream, with restarts after a round or right after the k-th submission iteration (outcomes still scripted, blocks pending): each submit call is decoded and judged (exactly the committed header / data incl. metadata, proposer's signature, height order, nothing whose acceptance was acknowledged is re-submitted, no needed block skipped - against the oracle's own record of acknowledgements, never the node's), the node's last-submitted heights (hook) must be monotone across restarts and not past the accepted prefix, and after faults stop clean iterations must bring everything onto DA.",
         W + " One loop iteration is driven through the verif hook; the ticker loops run unmodified in C13.", "runtime monitoring: DA-double call log oracle with its own acknowledgement record + hook-sampled watermarks over enumerated fault sequences", "DESIGN.md 6 W3, 7 C06"),
 "C07": ("exploration",
         "Seeded interleavings of production, submissions (with DA faults), inclusion passes of the real DAIncluderLoop, DA scans, clean restarts and crashes - also a crash after the k-th durable write inside an inclusion pass - on an aggregator and on a full node fed through DA (optionally after a prefix arrived and was applied over P2P; initial height 1 or 4); monitors at the SetFinal call and at the persist write give the order finalize -> persist -> report; soundness and the recorded DA heights (read through the store API) are judged against the DA double's contents; in the final phase the node's own wake-ups must bring the DA-included height to the tip.",
         W, "runtime monitoring: online assertions at SetFinal / persist hooks + DA-content soundness oracle", "DESIGN.md 6 W4, 7 C07"),
 "C08": ("exploration",
         "Seeded rounds of (header iteration, data iteration, 1-4 production steps) with DA outages for limits 1,2,3,5, eight block patterns and restarts: a declined step must be justified by >= limit blocks beyond the accepted prefix of a stream, nothing is produced with more than limit blocks waiting, R accepting rounds raise the height by >= R-1. Live mode: the node's own two submission loops run (DA block time 1 ms) while production is attempted continuously through outages of 1-190 refused submissions; the node's own pending counts read just before / after a step are the reference, and production must resume after the outage.",
         W + " In the stepped mode a submission round is atomic (header then data iteration); the live mode runs the real loops.", "runtime monitoring: per-step throttle oracle against the DA double's accepted prefix; concurrent live mode with bounded-resume oracle", "DESIGN.md 7 C08"),
 "C09": ("fault_enumeration",
         "The real RetrieveLoop (child processes) over DA heights holding genuine blobs mixed with junk (every truncation class, bit flips, absurd lengths, wrong types, structured protobuf junk), empty heights answered in the three forms DA implementations use, 100-250 ids at one height with the genuine blobs in the last chunk, and all fetch-outcome sequences up to length 3 (4) per height with 7 listing / 11 chunk error identities plus runs of 10-13 failures. A spy records every listing and fetch with its ids and the cursor hook: a height is complete once a listing said it holds nothing or every listed id was fetched; the cursor never stands above an incomplete height, a failed height is asked for again before a higher one completes, every genuine blob (byte identity with the producer's) of a complete height is handed to sync.",
         W + " A stall is judged logically (ticks taken without any DA call); time-outs are inconclusive.", "runtime monitoring: completeness oracle over the recorded DA calls and cursor positions + genuine-blob delivery oracle, crash isolation by child processes", "DESIGN.md 7 C09"),
 "C10": ("exploration",
         "Sequential histories of submit/next/restart on the real single sequencer against a set-of-states reference model of the bounded FIFO, with the process dying at its k-th durable write inside an operation (k = 1..3), histories that start on records in the pre-fix format, rejected submissions judged behaviourally (a sequencer restarted after the rejected call hands out what one restarted before it does), and concurrent client histories checked for linearizability with porcupine plus conservation after drain and agreement with a sequencer restarted on a copy.",
         W, "runtime monitoring: reference-model comparison + porcupine linearizability checking of recorded histories; crash-at-k-th-write datastore", "DESIGN.md 7 C10"),
 "C11": ("fault_enumeration",
         "Operation scripts on the real Reaper + real single sequencer + real Manager sharing one datastore; the first three reap and produce operations of every script are additionally cut by a crash after every durable write; at quiescence every transaction the mempool handed out must be in the chain, blocks must be the released batches in release order, and without crashes nothing is included more often than offered.",
         W + " Mempool double per contract (executed transactions leave the mempool).", "runtime fault injection + conservation / ordering oracle between mempool, sequencer releases and chain", "DESIGN.md 7 C11"),
 "C12": ("exploration",
         "Structural generators over every wire type through every path (P2P, DA blob, block store, gob cache; fresh and reused receivers; default and custom signature payload), a hand-written protobuf/hash reference for generated values, 62 golden vectors recorded from the pinned tree, and decoder totality on mutated and random bytes in child processes: an accepted value must be a fixed point of encode/decode with stable hash and commitment (a dead child is a violation attributed to the journaled input).",
         "MemDS instead of Badger for the store path; golden vectors record today's behaviour.", "runtime monitoring: round-trip / reference-encoding / golden-vector oracles, decoder fuzzing with crash isolation", "DESIGN.md 7 C12"),
 "C13": ("exploration",
         "All loops of an aggregator and a full node run concurrently as goroutines under the Go race detector (children of the -race build) with DA latency/faults, a slow execution client, a mempool that runs dry and datastore yields; an observer samples cross-loop invariants while they run (watermarks and DA-included heights read before the chain height must not exceed it; finalize is only asked for committed blocks), afterwards W1-W4 run on the final state; stop scenarios by logical position (start-up delay, blocked submit / execution / DA listing, full event channels, mid-scan, a long submit back-off, hour-long timers, idle) require every loop to return within 10 s after cancel; the real FullNode.Run (libp2p loopback; built under another context than it runs under; execution client hanging in ExecuteTxs, SetFinal and GetTxs) is stopped at seeded instants and must also wind itself down after a fatal loop error.",
         W + " The race detector only sees executed interleavings.", "runtime monitoring: Go race detector + post-mortem invariant oracles + stop watchdog with goroutine dump", "DESIGN.md 7 C13"),
 "C14": ("exploration",
         "Operation sequences (payloads, state and metadata values up to 3 MiB) on the real store against a per-kind map model on MemDS with a crash after every durable write (the image must equal the model without the cut operation or with all of it), on real Badger with close/reopen, and a child writing to Badger that is SIGKILLed: per height all four records of one save or none, and everything acknowledged before the kill is there after reopen.",
         "Badger's own durability is trusted for the MemDS runs and spot-checked by the kill test (process kill, not power loss).", "runtime monitoring: reference-model comparison + crash-after-every-write enumeration + kill/reopen durability oracle", "DESIGN.md 7 C14"),
 "C15": ("exploration",
         "Real KVExecutor instances on their own Badger directories. Deciding oracle is relational: the root first seen for a history of executed transactions must recur whenever that history recurs - on the other, differently driven instance (SetFinal timing, own-mempool injection, repeated InitChain, reopen, padded transactions), after a refused block, after re-execution; a sorted-map model is a second opinion only. A concurrent phase (SetFinal / InjectTx / GetTxs / InitChain racing with execution, under the race detector in child processes) must equal a sequential instance; a kill phase SIGKILLs the process around every store write.",
         "Badger on disk under /verif/out/tmp; reopen by closing the private handle or by child processes.", "runtime monitoring: relational (same history, same root) oracle over two instances + race detector on a concurrent phase + kill/reopen", "DESIGN.md 7 C15"),
 "C16": ("fault_enumeration",
         "The same call sequence on two identical scriptable backings, one called directly and one through the real JSON-RPC server+client on loopback: node-side helper results must agree in code, count, ids, data, height and timestamp for every sentinel error in five wrapping positions, cancellation and deadline, heights with/without/future blobs; the six helper-less interface methods are compared by values and error presence; what the proxied backing received must be the longest prefix that fits by the client's own (calibrated) notion of size, and the reported count must be what was stored.",
         "HTTP transport on loopback only; error message texts are not compared.", "runtime monitoring: differential oracle direct vs proxied over an enumerated fault matrix", "DESIGN.md 7 C16"),
 "C17": ("exploration",
         "The real AggregationLoop with the production function replaced by a recorder: a notification during an in-flight production must be followed by a further production (idle interval 1 h, 15 s watchdog); on-demand latency, minimum gaps and cadence are judged against reference timers and sleeps measured in the same process and window (majority rules, confirm-on-repeat), for lazy and normal mode, idle/block ratios 1-40 incl. fractional ones, productions of 0-200 % of the interval; the real Reaper's notification path is run end to end.",
         "Time-based verdicts are calibrated against in-process references; uncalibratable samples are inconclusive.", "runtime monitoring: timing recorder on the real loop with load-robust verdict rules", "DESIGN.md 7 C17"),
 "C18": ("exploration",
         "Fields discovered by reflection over Config and flags by VisitAll; for every field and every (default, file, flag) presence pattern - on a flat command and under root-with-persistent-flags plus subcommand - the loaded Config must equal a reference model in every field; every option-naming flag must reach its option; SaveAsYaml -> Load (strings incl. control characters and YAML-significant words) and genesis save -> load must round-trip; invalid genesis files (derived from the parsed document, plus content after the object) must be refused.",
         "Exhaustive over fields and flags, sampled over values.", "runtime monitoring: reference-model comparison of Load results over reflected fields/flags", "DESIGN.md 7 C18"),
 "C19": ("fault_enumeration",
         "Create/load/export/import of the real key file in child processes: every byte position x {bit flips, 0x00, 0xFF} and every truncation length (stratified in quick, complete in thorough), JSON-level mutations, wrong passphrases, legacy salt-less files, import over existing files: load must fail or yield the same key whose signatures verify under the key it reports and whose address is KeyAddress(pub); export -> import -> load preserves the key; the file is private (mode & 077 == 0); never a panic.",
         "Standard-library reference for the legacy derivation; Argon2 cost makes the byte enumeration stratified in quick.", "runtime fault injection on the key file + signature/address oracle, crash isolation by child processes", "DESIGN.md 7 C19"),
 "C20": ("exploration",
         "Histories of GetNextBatch calls on the real based sequencer over generated DA contents (text and binary transactions, 0-230 per height, up to 256 KiB), limits incl. none and below a transaction, DA growth, retrieval errors and restarts with the caller's cursor kept, lost or stale: the concatenation of released transactions must at all times be a prefix of the DA contents in (height, position) order, every batch within the requested size, bounded completeness once the DA is frozen.",
         W, "runtime monitoring: prefix-of-DA-order oracle over recorded releases", "DESIGN.md 7 C20"),
}

NOT_YET = {}

def main():
    props = [json.loads(l) for l in open(os.path.join(ROOT, "properties.jsonl"))]
    hooks_commits = subprocess.run(["git", "-C", "/repo", "log", "--format=%H", "--grep=^verif:"], capture_output=True, text=True).stdout.split()
    checks, na = [], []
    for p in props:
        pid = p["id"]
        if pid in CHECKS:
            cat, text, note, tech, ref = CHECKS[pid]
            checks.append({
                "property_id": pid,
                "quick_cmd": f"./vcheck {pid} quick",
                "thorough_cmd": f"./vcheck {pid} thorough",
                "evidence_file": f"evidence/{pid}.json",
                "replay_cmd_template": "./vcheck replay {path}",
                "engine": "vh",
                "level_claimed": {"category": cat, "text": text, "design_ref": ref},
                "level_note": note,
                "technique": tech,
            })
        else:
            na.append({"property_id": pid, "reason": NOT_YET.get(pid, "check not built yet in this session (runtime monitor designed in DESIGN.md §7; listed here until its command exists and is silent on the unchanged tree)")})
    m = {
        "version": 1,
        "setup_cmd": "./vcheck setup",
        "hooks": {
            "guard": "verif",
            "enable": "go build -tags verif (the harness module /verif/harness replaces the repo modules by /repo and is always built with -tags verif)",
            "baseline_off_cmd": "/verif/scripts/baseline_off.sh",
            "source_commits": hooks_commits,
            "add_only": True,
        },
        "engines": [{"name": "vh", "path": "harness/cmd/vh", "serves_properties": [c["property_id"] for c in checks],
                     "kind_free_text": "Go harness: real node code of /repo (rebuilt with -tags verif) run inside recording doubles; oracles over recorded executions; race detector build for C13"}],
        "checks": checks,
        "notes": "Runtime monitoring only. Known findings: KNOWN_FINDINGS.txt. Evidence is rewritten by every run.",
        "not_applicable": na,
    }
    json.dump(m, open(os.path.join(ROOT, "MANIFEST.json"), "w"), indent=1)
    print("checks:", len(checks), "not_applicable:", len(na))

main()
